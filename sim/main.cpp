// Worker: runs many seeded simulations in-process, or replays one plan file.
//   sim run   --profile NAME --seed-base N --count N [--faults 0|1] [--out DIR] [--samples K]
//   sim replay FILE [-v]
//   sim plan  --profile NAME --seed N [--faults 0|1]          (print the plan a seed generates)
// Output protocol (one line each, flushed):
//   B <seed>                         run begins (the in-flight seed if the process dies)
//   R <seed> <loghash> <fphash> <nontrivial-mask> <nops>
//   V <seed> <props> <oracle> <replay-path> | <text>
//   K <seed> <bytes>                 allocation balance off after the run (leak candidate)
//   STATS <json>
#include <unistd.h>

#include <cstdio>
#include <cstdlib>
#include <cstring>
#include <exception>
#include <fstream>
#include <iostream>
#include <sstream>
#include <string>
#include <unordered_set>

#include "exec.hpp"
#include "gen.hpp"
#ifdef SIM_MODE_T
#include "modet.hpp"
#include "sched.hpp"
#endif

#if defined(__has_feature)
#if __has_feature(address_sanitizer)
#define SIM_ASAN 1
#endif
#endif
#if defined(__SANITIZE_ADDRESS__)
#define SIM_ASAN 1
#endif

#ifdef SIM_ASAN
#include <sanitizer/allocator_interface.h>
#include <sanitizer/lsan_interface.h>
extern "C" __attribute__((used)) const char* __asan_default_options() {
  return "exitcode=77:detect_leaks=1:leak_check_at_exit=0:detect_stack_use_after_return=1:abort_on_error=0:allocator_may_return_null=1:print_summary=1";
}
extern "C" __attribute__((used)) const char* __ubsan_default_options() { return "halt_on_error=1:exitcode=77:print_stacktrace=1"; }
#endif

#if defined(__has_feature)
#if __has_feature(thread_sanitizer)
extern "C" __attribute__((used)) const char* __tsan_default_options() {
  return "suppress_equal_stacks=0:suppress_equal_addresses=0:history_size=7:exitcode=0:halt_on_error=0:report_signal_unsafe=0:report_thread_leaks=0";
}
#endif
#endif

using namespace sim;

static const char* kProps[] = {"C01", "C02", "C03", "C04", "C05", "C06", "C07", "C08", "C09", "C13", "C14", "C15", "C16", "C17"};
static const int kNProps = sizeof kProps / sizeof kProps[0];

static volatile unsigned long long g_inflight = 0;

static void on_terminate() {
  char buf[128];
  int n = std::snprintf(buf, sizeof buf, "T %llu %s std::terminate called\n", g_inflight, op_name(g_last_op_kind));
  if (write(1, buf, static_cast<size_t>(n)) < 0) {}
  _exit(78);
}

static std::string one_line(std::string s) {
  for (auto& c : s) if (c == '\n' || c == '\r') c = '|';
  return s;
}

static void write_replay(const std::string& path, const Plan& p, const Violation* v, uint64_t hash, const char* binary) {
  std::ofstream f(path);
  f << "# trompeloeil deterministic-simulation replay file v1\n";
  f << "binary " << binary << '\n';
  f << "profile " << profile_name(p.cfg.profile) << '\n';
  if (v) {
    f << "property " << v->props << '\n';
    f << "oracle " << v->oracle << '\n';
    f << "violation " << one_line(v->text) << '\n';
    f << "failing_op " << v->op_index << '\n';
  }
  f << "hash " << std::hex << hash << std::dec << '\n';
  f << plan_to_text(p);
}


#ifdef SIM_MODE_T
static const char* kBinaryT =
#if defined(SIM_BINARY_NAME)
    SIM_BINARY_NAME;
#elif defined(SIM_ASAN)
    "simTa";
#else
    "simT";
#endif

static void write_replay_t(const std::string& path, const Plan& p, const TResult& R, const std::string& oracle, const std::string& text) {
  std::ofstream f(path);
  f << "# trompeloeil deterministic-simulation replay file v1\n";
  f << "binary " << kBinaryT << "\nprofile threads\nproperty C12\noracle " << oracle << "\nviolation " << one_line(text) << '\n';
  f << "hash " << std::hex << R.log_hash << std::dec << '\n';
  Plan q = p; q.schedule = R.schedule;
  f << plan_to_text(q);
}

// returns 0 ok, 1 violation; prints the result lines
static int one_run_t(const Plan& p, const std::string& out, bool is_replay, const char* replay_path) {
  unsigned long long s = p.seed;
  TResult R = run_modet(p);
  if (R.sched_status != SCHED_OK) {
    const char* what = R.sched_status == SCHED_DEADLOCK ? "deadlock" : R.sched_status == SCHED_SELF_DEADLOCK ? "self_deadlock" : "step_cap";
    std::string path = replay_path ? replay_path : out + "/seedT-" + std::to_string(s) + ".replay";
    if (!is_replay) { TResult R2 = R; int buf[SCHED_MAX_DECISIONS]; int n = sched_decisions(buf, SCHED_MAX_DECISIONS); R2.schedule.assign(buf, buf + (n < SCHED_MAX_DECISIONS ? n : SCHED_MAX_DECISIONS)); write_replay_t(path, p, R2, what, std::string(what) + ": no task can run while some are unfinished"); }
    std::printf("%s %llu C12 %s %s | scheduler status %s after %ld decisions\n", R.sched_status == SCHED_STEP_CAP ? "H" : "V", s, what, path.c_str(), what, sched_stat(0));
    std::fflush(stdout);
    _exit(R.sched_status == SCHED_STEP_CAP ? 80 : 3);   // parked threads cannot be joined
  }
  int rc = 0;
  std::string oracle, text;
  for (auto& r : R.races) if (r.in_library) { oracle = "data_race"; text = r.desc + " in " + r.lib_frame + " || " + r.stacks[0] + " || " + r.stacks[1]; break; }
  bool harness_race = false;
  if (oracle.empty()) for (auto& r : R.races) if (!r.in_library) harness_race = true;
  if (oracle.empty() && R.lin_verdict == 0) { oracle = "linearizability"; text = R.lin_text; }
  if (!oracle.empty()) {
    std::string path = replay_path ? replay_path : out + "/seedT-" + std::to_string(s) + ".replay";
    if (!is_replay) write_replay_t(path, p, R, oracle, text);
    std::printf("V %llu C12 %s %s | %s\n", s, oracle.c_str(), path.c_str(), one_line(text).c_str());
    rc = 1;
  }
  if (harness_race) { std::printf("H %llu race report without a library frame: %s || %s\n", s, one_line(R.races[0].stacks[0]).c_str(), one_line(R.races[0].stacks[1]).c_str()); }
  std::printf("RT %llu %016llx %016llx %d %d %ld %ld %ld %ld %ld %ld %ld %ld %ld %d %ld %d\n", s, static_cast<unsigned long long>(R.log_hash), static_cast<unsigned long long>(R.fp_hash),
              p.cfg.ntasks, R.nops, R.overlapping_pairs, R.decisions, R.switches, R.blocked, R.stalls, R.lock_acqs, R.calls_accepted, R.calls_rejected,
              R.f_clause_throw + R.f_stall, R.lin_verdict, R.lin_nodes, R.lin_by_hint ? 1 : 0);
  std::fflush(stdout);
  return rc;
}
#endif

static int do_replay(const char* file, bool verbose) {
  std::ifstream f(file);
  if (!f) { std::fprintf(stderr, "cannot open %s\n", file); return 2; }
  Plan p;
  if (!plan_from_text(f, p)) { std::fprintf(stderr, "malformed replay file %s\n", file); return 2; }
#ifdef SIM_MODE_T
  if (p.cfg.mode == 1) {
    globals().verbose = verbose;
    g_inflight = p.seed;
    std::printf("B %llu\n", static_cast<unsigned long long>(p.seed)); std::fflush(stdout);
    int rc = one_run_t(p, ".", true, file);
    return rc;
  }
#endif
  globals().verbose = verbose;
  globals().known_multi_monitor_allowed = !(p.cfg.deny_mask & 1);
  globals().known_assign_watched_allowed = !(p.cfg.deny_mask & 2);
  globals().known_seq_destroy_live_allowed = !(p.cfg.deny_mask & 4);
  globals().deep = (p.cfg.deny_mask & 16) != 0;
  g_inflight = p.seed;
  std::printf("B %llu\n", static_cast<unsigned long long>(p.seed)); std::fflush(stdout);
  int rc = 0;
  {
    Exec ex(false);
    ex.run(p);
    if (ex.failed()) {
      const Violation& v = ex.violation();
      std::printf("V %llu %s %s %s | %s\n", static_cast<unsigned long long>(p.seed), v.props.c_str(), v.oracle.c_str(), file, one_line(v.text).c_str());
      rc = 1;
    }
    std::printf("R %llu %016llx\n", static_cast<unsigned long long>(p.seed), static_cast<unsigned long long>(ex.log_hash()));
    std::fflush(stdout);
    // after a violation the real world is not trustworthy: do not run its destructors
    if (rc) _exit(1);
  }
  std::fflush(stdout);
  return rc;
}

int main(int argc, char** argv) {
  std::set_terminate(on_terminate);
  if (argc < 2) { std::fprintf(stderr, "usage: sim run|replay|plan ...\n"); return 2; }
  std::string cmd = argv[1];
  std::string profile = "general", out = ".";
  unsigned long long base = 1, count = 1, seed = 1;
  int faults = 1, samples = 0;
  bool verbose = false;
  const char* file = nullptr;
  for (int i = 2; i < argc; ++i) {
    std::string a = argv[i];
    auto next = [&]() -> const char* { return i + 1 < argc ? argv[++i] : ""; };
    if (a == "--profile") profile = next();
    else if (a == "--seed-base") base = std::strtoull(next(), nullptr, 10);
    else if (a == "--count") count = std::strtoull(next(), nullptr, 10);
    else if (a == "--seed") seed = std::strtoull(next(), nullptr, 10);
    else if (a == "--faults") faults = std::atoi(next());
    else if (a == "--out") out = next();
    else if (a == "--samples") samples = std::atoi(next());
    else if (a == "--no-multi-monitor") globals().known_multi_monitor_allowed = false;
    else if (a == "--no-assign-watched") globals().known_assign_watched_allowed = false;
    else if (a == "--no-seq-destroy-live") globals().known_seq_destroy_live_allowed = false;
    else if (a == "--deep") globals().deep = true;
    else if (a == "-v") verbose = true;
    else file = argv[i];
  }
  bool range_replay = false;
  if (cmd == "replay" && file) {
    // a replay file may name a range of seeds instead of one plan: a violation that only shows after the runs before it in
    // the same process (state that the library keeps across worlds). "range <profile> <first seed> <count> <faults> [flags]"
    std::ifstream rf(file); std::string line;
    while (std::getline(rf, line)) {
      if (line.compare(0, 6, "range ") != 0) continue;
      std::istringstream ls(line.substr(6)); std::string flag;
      ls >> profile >> base >> count >> faults;
      while (ls >> flag) {
        if (flag == "--no-multi-monitor") globals().known_multi_monitor_allowed = false;
        else if (flag == "--no-assign-watched") globals().known_assign_watched_allowed = false;
        else if (flag == "--no-seq-destroy-live") globals().known_seq_destroy_live_allowed = false;
        else if (flag == "--deep") globals().deep = true;
      }
      range_replay = true; cmd = "run"; samples = 0;
      break;
    }
  }
  if (cmd == "replay") return file ? do_replay(file, verbose) : 2;
  int pf = profile_from_name(profile);
  if (pf < 0) { std::fprintf(stderr, "unknown profile %s\n", profile.c_str()); return 2; }
  if (cmd == "plan") {
    Generator g(seed, pf, faults != 0);
    Plan p = g.make(); p.seed = seed;
    p.cfg.deny_mask = (globals().known_multi_monitor_allowed ? 0 : 1) | (globals().known_assign_watched_allowed ? 0 : 2) | (globals().known_seq_destroy_live_allowed ? 0 : 4) | (globals().deep ? 16 : 0);
    std::fputs(plan_to_text(p).c_str(), stdout);
    return 0;
  }
#ifdef SIM_MODE_T
  if (cmd == "planT") { Plan p = gen_plan_t(seed, faults != 0); std::fputs(plan_to_text(p).c_str(), stdout); return 0; }
  if (cmd == "runT") {
    long v = 0;
    for (unsigned long long s = base; s < base + count; ++s) {
      g_inflight = s;
      std::printf("B %llu\n", s); std::fflush(stdout);
      Plan p = gen_plan_t(s, faults != 0);
      if (samples > 0) { --samples; std::printf("SAMPLE %llu %s\n", s, one_line(plan_to_text(p)).c_str()); }
      v += one_run_t(p, out, false, nullptr);
    }
    return v ? 1 : 0;
  }
#endif
  if (cmd != "run") return 2;
  globals().verbose = verbose;
  Stats total;
  std::unordered_set<uint64_t> states;
  std::vector<uint64_t> run_states;
  run_states.reserve(4096);
  long violations = 0;
  int samples_left = samples;
#ifdef SIM_ASAN
  size_t warm = 0;
#endif
  for (unsigned long long s = base; s < base + count; ++s) {
    g_inflight = s;
    std::printf("B %llu\n", s); std::fflush(stdout);
    Plan p;
    {
      Generator g(s, pf, faults != 0);
      p = g.make(); p.seed = s;
      p.cfg.deny_mask = (globals().known_multi_monitor_allowed ? 0 : 1) | (globals().known_assign_watched_allowed ? 0 : 2) | (globals().known_seq_destroy_live_allowed ? 0 : 4) | (globals().deep ? 16 : 0);
    }
#ifdef SIM_ASAN
    size_t before = __sanitizer_get_current_allocated_bytes();
#endif
    uint64_t lh = 0, fph = 0; unsigned mask = 0; size_t nops = p.tasks[0].size();
    bool failed = false;
    {
      Exec ex(false);
      ex.run(p);
      lh = ex.log_hash();
      std::string fp = ex.fingerprint();
      fph = fnv1a(0xcbf29ce484222325ULL, fp.data(), fp.size());
      for (int i = 0; i < kNProps; ++i) if (ex.nontrivial_for(kProps[i]) > 0) mask |= 1u << i;
      total.add(ex.stats());
      run_states.assign(ex.state_hashes().begin(), ex.state_hashes().end());   // (capacity reserved: no allocation inside the measured window)
      if (ex.failed()) {
        failed = true;
        ++violations;
        const Violation& v = ex.violation();
        std::string path = range_replay ? std::string(file) : out + "/seed-" + std::to_string(s) + "-" + profile + (faults ? "" : "-nofault") + ".replay";
        if (!range_replay) write_replay(path, p, &v, lh, "simH");
        std::printf("V %llu %s %s %s | %s\n", s, v.props.c_str(), v.oracle.c_str(), path.c_str(), one_line(v.text).c_str());
        std::printf("R %llu %016llx %016llx %x %zu\n", s, static_cast<unsigned long long>(lh), static_cast<unsigned long long>(fph), mask, nops);
        std::printf("STATES %zu\n", states.size());
        std::printf("STATS %s\n", total.to_json().c_str());
        std::fflush(stdout);
        // after a violation the real world is not trustworthy: do not run its destructors; the driver restarts us
        _exit(range_replay ? 1 : 3);
      }
    }
#ifdef SIM_ASAN
    size_t after = __sanitizer_get_current_allocated_bytes();
    if (!failed && warm >= 3 && after > before) std::printf("K %llu %zu\n", s, after - before);
    ++warm;
#endif
    for (uint64_t h : run_states) states.insert(h);
    std::printf("R %llu %016llx %016llx %x %zu\n", s, static_cast<unsigned long long>(lh), static_cast<unsigned long long>(fph), mask, nops);
    if (samples_left > 0 && mask && !failed) {
      --samples_left;
      std::printf("SAMPLE %llu %s\n", s, one_line(plan_to_text(p)).c_str());
    }
    std::fflush(stdout);
  }
#ifdef SIM_ASAN
  if (__lsan_do_recoverable_leak_check()) std::printf("L %llu %llu leak(s) reported by LeakSanitizer in this batch\n", base, base + count - 1);
#endif
  std::printf("STATES %zu\n", states.size());
  std::printf("STATS %s\n", total.to_json().c_str());
  std::fflush(stdout);
  return violations ? 1 : 0;
}
