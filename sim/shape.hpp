// Shape descriptors shared by the generated catalogue, the model and the executor.
#pragma once
#include <cstddef>

namespace sim {

enum MK { MK_ANY, MK_VAL, MK_EQ, MK_NE, MK_LT, MK_LE, MK_GT, MK_GE, MK_NOTEQ, MK_ANYOF, MK_TYPEDANY,
          // range matchers over the argument {a, a + 1, a} of v(const std::vector<int>&)
          MK_RINC2, MK_RINC11, MK_RIS, MK_RSTART, MK_RENDS, MK_RPERM, MK_RALL, MK_RNONE, MK_RANY, MK_RNOTIS, MK_RENDS3 };
enum WK { WK_LE, WK_GE, WK_NE, WK_EQ, WK_LT12, WK_NESNAP, WK_LTMAC };
enum BF { BF_DEFAULT, BF_T2, BF_T13, BF_T02, BF_AL1, BF_AL2, BF_AM2, BF_RT1, BF_RT2, BF_ALLOW, BF_FORBID, BF_T0,
          BF_T11, BF_AL0, BF_T3, BF_T24, BF_RTAL, BF_RTAM };
enum RK { RK_NONE, RK_VAL, RK_LRVAL, RK_THROW_STD, RK_THROW_INT, RK_REF_PARAM, RK_REF_CELL, RK_STR, RK_LRSTR, RK_CREF_PARAM, RK_CREF_CELL, RK_CREF_CAPT,
          RK_STR_PARAM, RK_LRSTR_VAR, RK_PAIR, RK_LRPAIR_VAR, RK_LRTHROW_VAR, RK_THROW_CSTR };

// function indices of MockT
enum FN { FN_F1 = 0, FN_F2 = 1, FN_G = 2, FN_R = 3, FN_C = 4, FN_U = 5, FN_S = 6, FN_K = 7, FN_Z = 8, FN_V = 9, FN_P = 10, FN_CF = 11, NFN = 12 };

struct FnDesc { const char* name; int arity; char ret; /* i v r s k p(air) */ char argk; /* i r u s c n(one) v(ector) */ };
inline const FnDesc& fn_desc(int fn) {
  static const FnDesc t[NFN] = {  // (declaration order in MockT: destruction runs backwards)
    {"f", 1, 'i', 'i'}, {"f", 2, 'i', 'i'}, {"g", 1, 'v', 'i'}, {"r", 1, 'r', 'r'},
    {"c", 1, 'i', 'i'}, {"u", 1, 'i', 'u'}, {"s", 1, 's', 's'}, {"k", 1, 'k', 'c'}, {"z", 0, 'v', 'n'}, {"v", 1, 'v', 'v'}, {"p", 1, 'p', 'i'}, {"f", 1, 'i', 'i'}};   // the last one: int f(int) const, the const twin of FN_F1
  return t[fn];
}

struct MatcherDesc { MK kind; int vi; };
struct WithDesc { WK kind; bool lr; int vi; const char* text; };

struct ShapeDesc {
  int id;
  int fn;
  BF bf;
  long L;  // -1 = unbounded, -2 = run time (Inst::lo / hi)
  long H;
  int nseq;
  bool times_after_seq;
  MatcherDesc m[2];
  int nwith;
  WithDesc w[2];
  int nse;
  bool se_lr[3];
  RK rk;
  unsigned line;
  unsigned sline;   // line of the scoped (REQUIRE_CALL / ALLOW_CALL / FORBID_CALL) variant of the statement, 0 = none generated
  int tu;
  const char* text;
  bool forbidding_static() const { return bf == BF_FORBID || bf == BF_T0; }
  bool runtime_bounds() const { return bf == BF_RT1 || bf == BF_RT2 || bf == BF_RTAL || bf == BF_RTAM; }
};

extern const ShapeDesc shape_table[];
extern const int shape_count;

}  // namespace sim
