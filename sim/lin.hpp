// Linearizability check for Mode T histories (DESIGN.md 3.6): recorded operations with invoke/response stamps
// and the stamps of their outermost critical sections are replayed on the reference model, first in
// critical-section order (the hint), then - if that fails - by a Wing-Gong style search over all orders
// consistent with program order and real-time order.
#pragma once
#include <algorithm>
#include <cstdio>
#include <functional>
#include <map>
#include <set>
#include <string>
#include <vector>

#include "model.hpp"
#include "plan.hpp"
#include "report.hpp"

namespace sim {

struct TOp {
  int task = 0, idx = 0;
  int kind = OP_NOP;
  int mock = -1, exp = -1, seq = -1, watched = -1, mon = -1, fn = 0;
  int args[2] = {0, 0};
  // expect / req_destruction parameters
  int shape = 0, v[3] = {0, 0, 0}, nseq = 0, seqs[3] = {-1, -1, -1};
  long L = 1, H = 1;
  int snap = 0, actor = 0;
  bool last_ref = false;       // drop_mock_ref: this drop destroyed the mock (observed)
  bool fault = false;          // a clause fault was armed
  int fault_at = 0;
  uint64_t invoke = 0, response = 0;
  std::vector<uint64_t> cs;
  Obs obs;
};

enum SubKind { SK_ATOMIC, SK_REG, SK_LIMITS, SK_HOOK, SK_FNLIST, SK_QSAT1, SK_QSAT2, SK_LINK };
struct SubOp { int op; int kind; int arg; uint64_t at; };

struct LinState {
  Model M;
  std::map<int, std::vector<int>> acc;      // per op: expectations whose 'pending' report is due (drop_mock_ref)
  std::map<int, int> refs;                  // mock -> live references
  std::map<int, std::pair<bool, bool>> q;   // per op: observed-consistent flags so far
  // everything later sub-steps depend on (the search memoises on it)
  uint64_t hash() const {
    uint64_t h = M.hash();
    auto mix = [&](long x) { h = fnv1a(h, &x, sizeof x); };
    for (auto& kv : acc) { mix(kv.first); for (int id : kv.second) mix(id); mix(-11); }
    for (auto& kv : refs) { mix(kv.first); mix(kv.second); }
    for (auto& kv : q) { mix(kv.first); mix(kv.second.first); mix(kv.second.second); }
    return h;
  }
};

struct LinResult { int verdict = 1; /* 1 ok, 0 violation, 2 inconclusive */ std::string text; long nodes = 0; bool by_hint = true; };

class LinChecker {
 public:
  std::vector<TOp> ops;      // all operations of the concurrent phase
  int ntasks = 0;
  bool tracer_alive = false; // a tracer was installed before the concurrent phase: every accepted call delivers one record
  bool no_hint = false;      // self-test: decide by the general search alone (SIM_LIN_NOHINT=1)
  bool debug = false;        // replay -v: print where the search gets stuck
  mutable int dbg_left = 60, dbg_steps = 400;

  static const int* destruction_order() { static const int o[NFN] = {FN_CF, FN_P, FN_V, FN_Z, FN_K, FN_S, FN_U, FN_C, FN_R, FN_G, FN_F2, FN_F1}; return o; }

  std::vector<SubOp> subops_of(int i, bool use_cs) const {
    const TOp& o = ops[static_cast<size_t>(i)];
    std::vector<SubOp> r;
    auto at = [&](size_t k) { return (use_cs && k < o.cs.size()) ? o.cs[k] : o.invoke; };
    switch (o.kind) {
      case OP_EXPECT: {
        const ShapeDesc& d = shape_table[o.shape];
        bool has_times = d.bf != BF_DEFAULT;  // ALLOW / FORBID / explicit TIMES / RT_TIMES go through the times modifier
        size_t k = 0;
        bool times_first = has_times && !d.times_after_seq;
        if (times_first) ++k;
        for (int s = 0; s < o.nseq; ++s) r.push_back({i, SK_REG, s, at(k++)});
        if (has_times && d.times_after_seq) r.push_back({i, SK_LIMITS, 0, at(k++)});
        r.push_back({i, SK_HOOK, 0, at(k++)});
        break;
      }
      case OP_DROP_MOCK_REF:
        if (o.last_ref) { size_t k = 0; for (int f = 0; f < NFN; ++f) for (int pass = 0; pass < 2; ++pass) r.push_back({i, SK_FNLIST, destruction_order()[f] * 2 + pass, at(k++)}); }
        else r.push_back({i, SK_ATOMIC, 0, o.invoke});
        break;
      case OP_Q_SAT: r.push_back({i, SK_QSAT1, 0, at(0)}); r.push_back({i, SK_QSAT2, 0, at(1)}); break;
      case OP_REQ_DESTRUCTION: {
        r.push_back({i, SK_LINK, 0, at(1)});
        for (int s = 0; s < o.nseq; ++s) r.push_back({i, SK_REG, s, at(2 + static_cast<size_t>(s))});
        break;
      }
      default: r.push_back({i, SK_ATOMIC, 0, at(0)});
    }
    return r;
  }

  size_t expected_cs(int i) const {
    const TOp& o = ops[static_cast<size_t>(i)];
    switch (o.kind) {
      case OP_EXPECT: { const ShapeDesc& d = shape_table[o.shape]; return static_cast<size_t>(o.nseq) + 1 + (d.bf != BF_DEFAULT ? 1 : 0); }
      case OP_DROP_MOCK_REF: return o.last_ref ? 2 * NFN : 0;
      case OP_Q_SAT: return o.mon >= 0 ? 0 : 2;
      case OP_REQ_DESTRUCTION: return 2 + static_cast<size_t>(o.nseq);
      case OP_NEW_WATCHED: case OP_NOP: return 0;
      default: return 1;
    }
  }

  static std::string rep_key(const PRep& p) { return std::string(repkind_name(p.kind)) + "|" + p.text + "|" + std::to_string(p.kind == RK_NOMATCH ? 0 : (p.tline ? p.tline : p.line)); }

  // apply one sub-operation; 1 consistent with the record, 0 not, 2 cannot be decided (tainted / orphaned territory)
  int apply(LinState& S, const SubOp& so, std::string& why) const {
    Model& M = S.M;
    const TOp& o = ops[static_cast<size_t>(so.op)];
    auto reports = [&]() { std::vector<PRep> v; for (auto& r : o.obs.reports) v.push_back(parse_report(r)); return v; };
    auto exp_key = [&](int id, int kind) { const MExp& e = M.exps[static_cast<size_t>(id)]; return std::string(repkind_name(kind)) + "|" + e.sd().text + "|" + std::to_string(e.line); };
    switch (o.kind) {
      case OP_EXPECT: {
        MExp& e = M.exps[static_cast<size_t>(o.exp)];
        const ShapeDesc& d = shape_table[o.shape];
        if (so.kind == SK_REG) {
          if (!e.alive) {  // first sub-step: the object comes into being with the bounds given so far
            e = MExp(); e.id = o.exp; e.shape = o.shape; e.mock = o.mock; e.fn = d.fn; e.actor = o.actor; e.line = d.line;
            for (int k = 0; k < 3; ++k) e.v[k] = o.v[k];
            if (d.times_after_seq) { e.L = 1; e.H = 1; } else { e.L = o.L; e.H = o.H; }
            e.snap0 = e.snap = o.snap; e.nseq = o.nseq; for (int k = 0; k < 3; ++k) e.seq[k] = o.seqs[k];
            e.alive = true; e.attached = false; e.order = M.clock++;
          }
          M.seqs[static_cast<size_t>(o.seqs[so.arg])].list.push_back(MEntry{false, o.exp});
          e.in_seq[so.arg] = true;
          return 1;
        }
        if (so.kind == SK_LIMITS) { e.L = o.L; e.H = o.H; return 1; }
        // hook: callable from now on
        if (!e.alive) {
          e = MExp(); e.id = o.exp; e.shape = o.shape; e.mock = o.mock; e.fn = d.fn; e.actor = o.actor; e.line = d.line;
          for (int k = 0; k < 3; ++k) e.v[k] = o.v[k];
          e.snap0 = e.snap = o.snap; e.nseq = 0; e.alive = true; e.order = M.clock++;
        }
        e.L = o.L; e.H = o.H;
        e.attached = true; e.order = M.clock++;
        if (!M.mocks[static_cast<size_t>(o.mock)].alive) { why = "expectation created on a dead mock (harness)"; return 2; }
        M.mocks[static_cast<size_t>(o.mock)].active[d.fn].insert(M.mocks[static_cast<size_t>(o.mock)].active[d.fn].begin(), o.exp);
        if (!o.obs.reports.empty()) { why = "creating an expectation reported a violation"; return 0; }
        return 1;
      }
      case OP_RELEASE: {
        MExp& e = M.exps[static_cast<size_t>(o.exp)];
        bool want = e.attached && !e.named && !e.sat();
        bool maybe = e.maybe_named;
        auto rs = reports();
        bool got = rs.size() == 1 && rs[0].kind == RK_UNFULFILLED && rep_key(rs[0]) == exp_key(o.exp, RK_UNFULFILLED);
        if (rs.size() > 1 || (rs.size() == 1 && !got)) { why = "release of exp#" + std::to_string(o.exp) + " produced an unexpected report: " + o.obs.reports[0].msg; return 0; }
        if (got != want && !(maybe && want)) { why = std::string("release of exp#") + std::to_string(o.exp) + (want ? " should report it unfulfilled (handled " : " must not report (handled ") + std::to_string(e.n) + ", lower bound " + std::to_string(e.L) + (e.named ? ", already named" : "") + ")"; return 0; }
        if (e.attached) { auto& l = e.in_saturated ? M.mocks[static_cast<size_t>(e.mock)].saturated[e.fn] : M.mocks[static_cast<size_t>(e.mock)].active[e.fn]; l.erase(std::remove(l.begin(), l.end(), o.exp), l.end()); }
        M.leave_all_sequences(e);
        e.attached = false; e.alive = false;
        return 1;
      }
      case OP_CALL: {
        const MMock& mm = M.mocks[static_cast<size_t>(o.mock)];
        if (!mm.alive) { why = "call on a dead mock (harness)"; return 2; }
        std::vector<int> mset; bool weak = false;
        for (int id : mm.active[o.fn]) { const MExp& e = M.exps[static_cast<size_t>(id)]; if (Model::accepts(e, o.args)) { mset.push_back(id); if (e.orphan || M.any_tainted(e)) weak = true; } }
        if (weak) return 2;
        int cand = -1; long best = -1;
        for (int id : mset) { long c = M.cost(M.exps[static_cast<size_t>(id)]); if (c == 0) { cand = id; best = 0; break; } if (c > 0 && (best < 0 || c < best)) { cand = id; best = c; } }
        bool rejected = o.obs.outcome == OC_THREW_FATAL;
        auto rs = reports();
        if (mset.empty() || cand < 0 || M.exps[static_cast<size_t>(cand)].forb()) {
          int wantk = mset.empty() ? RK_NOMATCH : (cand < 0 ? RK_SEQMISMATCH : RK_FORBIDDEN);
          if (!rejected) { why = std::string("call accepted (") + outcome_name(o.obs.outcome) + " " + std::to_string(o.obs.value) + ") although no live expectation can take it (" + repkind_name(wantk) + " expected)"; return 0; }
          if (rs.size() != 1) { why = "rejected call with " + std::to_string(rs.size()) + " reports"; return 0; }
          bool forb_in_m = false; for (int id : mset) if (M.exps[static_cast<size_t>(id)].forb()) forb_in_m = true;
          if (rs[0].kind != wantk && !(wantk == RK_SEQMISMATCH && rs[0].kind == RK_FORBIDDEN && forb_in_m)) { why = std::string("call rejected as ") + repkind_name(rs[0].kind) + " but the model says " + repkind_name(wantk); return 0; }
          if (!o.obs.oks.empty()) { why = "OK report for a rejected call"; return 0; }
          for (auto& c : o.obs.clauses) if (c.kind != 'W') { why = "an action ran in a rejected call"; return 0; }
          if (wantk == RK_NOMATCH) {
            bool satm = false; for (int id : mm.saturated[o.fn]) if (Model::accepts(M.exps[static_cast<size_t>(id)], o.args)) satm = true;
            if (satm != rs[0].saturated_listing) { why = "no-match report and model disagree on whether a saturated expectation matches"; return 0; }
            if (!satm) for (int id : mm.active[o.fn]) M.exps[static_cast<size_t>(id)].named = true;
          } else if (wantk == RK_FORBIDDEN) M.exps[static_cast<size_t>(cand)].named = true;
          else { for (int id : mset) M.exps[static_cast<size_t>(id)].maybe_named = true; if (rs[0].kind == RK_FORBIDDEN) for (int id : mset) if (M.exps[static_cast<size_t>(id)].forb()) M.exps[static_cast<size_t>(id)].named = true; }
          return 1;
        }
        if (rejected) { why = "call reported as a violation (" + (o.obs.reports.empty() ? std::string("?") : o.obs.reports[0].msg) + ") but the model says exp#" + std::to_string(cand) + " takes it"; return 0; }
        if (!rs.empty()) { why = "accepted call also reported a violation"; return 0; }
        int h = -1;
        for (auto& c : o.obs.clauses) if (c.kind != 'W') { h = c.inst; break; }
        if (h < 0 && o.obs.outcome == OC_RET_INT) h = static_cast<int>(o.obs.value >> 3);
        if (h < 0 && o.obs.outcome == OC_RET_STR) h = std::atoi(o.obs.sval.c_str()) >> 3;
        if (h >= 0 && h != cand) { why = "call handled by exp#" + std::to_string(h) + " but the model's candidate is exp#" + std::to_string(cand); return 0; }
        for (auto& c : o.obs.clauses) if (c.kind != 'W' && c.inst != cand) { why = "action of a foreign expectation ran"; return 0; }
        if (o.obs.oks.size() != 1) { why = std::to_string(o.obs.oks.size()) + " OK reports for an accepted call"; return 0; }
        if (tracer_alive && o.obs.traces.size() != 1) { why = std::to_string(o.obs.traces.size()) + " trace records delivered during an accepted call (to the thread that made it)"; return 0; }
        MExp& e = M.exps[static_cast<size_t>(cand)];
        e.n++;
        for (int i = 0; i < e.nseq; ++i) if (e.in_seq[i] && e.seq[i] >= 0) M.retire_until(e.seq[i], false, cand);
        if (e.full()) {
          M.leave_all_sequences(e);
          auto& al = M.mocks[static_cast<size_t>(o.mock)].active[o.fn];
          al.erase(std::remove(al.begin(), al.end(), cand), al.end());
          M.mocks[static_cast<size_t>(o.mock)].saturated[o.fn].push_back(cand);
          e.in_saturated = true;
        }
        return 1;
      }
      case OP_Q_SAT: {
        if (o.mon >= 0) {   // a destruction requirement: satisfied and saturated exactly when its object has died
          bool died = M.mons[static_cast<size_t>(o.mon)].died;
          bool got = so.kind == SK_QSAT1 ? o.obs.flag : o.obs.flag2;
          if (got != died) { why = std::string(so.kind == SK_QSAT1 ? "is_satisfied()" : "is_saturated()") + " of requirement#" + std::to_string(o.mon) + " = " + std::to_string(got) + " but its object " + (died ? "has died" : "is alive"); return 0; }
          return 1;
        }
        const MExp& e = M.exps[static_cast<size_t>(o.exp)];
        if (so.kind == SK_QSAT1) { if (o.obs.flag != e.sat()) { why = "is_satisfied() of exp#" + std::to_string(o.exp) + " = " + std::to_string(o.obs.flag) + ", model " + std::to_string(e.sat()); return 0; } return 1; }
        if (o.obs.flag2 != e.full()) { why = "is_saturated() of exp#" + std::to_string(o.exp) + " = " + std::to_string(o.obs.flag2) + ", model " + std::to_string(e.full()); return 0; }
        return 1;
      }
      case OP_Q_COMPLETED: {
        if (M.seqs[static_cast<size_t>(o.seq)].tainted) return 2;
        bool c = M.seq_completed(o.seq);
        if (o.obs.flag != c) { why = "is_completed() of sequence#" + std::to_string(o.seq) + " = " + std::to_string(o.obs.flag) + ", model " + std::to_string(c); return 0; }
        return 1;
      }
      case OP_NEW_WATCHED: { M.watched[static_cast<size_t>(o.watched)].alive = true; return 1; }
      case OP_REQ_DESTRUCTION: {
        MMon& m = M.mons[static_cast<size_t>(o.mon)];
        if (so.kind == SK_LINK) {
          m = MMon(); m.id = o.mon; m.watched = o.watched; m.nseq = o.nseq; m.alive = true; m.order = M.clock++;
          for (int k = 0; k < 2; ++k) m.seq[k] = o.seqs[k];
          M.watched[static_cast<size_t>(o.watched)].monitors.push_back(o.mon);
          return 1;
        }
        M.seqs[static_cast<size_t>(o.seqs[so.arg])].list.push_back(MEntry{true, o.mon});
        m.in_seq[so.arg] = true;
        return 1;
      }
      case OP_DESTROY_WATCHED: {
        MWatched& w = M.watched[static_cast<size_t>(o.watched)];
        auto rs = reports();
        if (w.monitors.empty()) {
          if (rs.size() != 1 || rs[0].kind != RK_UNEXPECTED) { why = "death of an unwatched object must give exactly one unexpected-destruction report"; return 0; }
        } else {
          int wantn = 0; bool tainted = false;
          std::vector<int> ms = w.monitors;
          std::sort(ms.begin(), ms.end(), [&](int a, int b) { return M.mons[static_cast<size_t>(a)].order < M.mons[static_cast<size_t>(b)].order; });
          for (int mid : ms) {
            MMon& m = M.mons[static_cast<size_t>(mid)];
            for (int i = 0; i < m.nseq; ++i) {
              if (m.seq[i] < 0) { tainted = true; continue; }
              if (M.seqs[static_cast<size_t>(m.seq[i])].tainted) { tainted = true; continue; }
              bool eligible = m.in_seq[i] && M.pos_in(m.seq[i], true, mid) >= 0;
              if (!eligible) ++wantn;   // reported, and the death still counts: the sequence itself goes on as the model says (C05)
            }
            m.died = true;
            for (int i = 0; i < m.nseq; ++i) if (m.seq[i] >= 0 && m.in_seq[i]) M.retire_until(m.seq[i], true, mid);
          }
          for (auto& r : rs) if (r.kind != RK_SEQMISMATCH || r.fatal) { why = "death of a watched object with a live requirement reported: " + r.raw; return 0; }
          if (!tainted && static_cast<int>(rs.size()) != wantn) { why = "monitored destruction produced " + std::to_string(rs.size()) + " sequence reports, model expects " + std::to_string(wantn); return 0; }
        }
        w.alive = false; w.monitors.clear();
        return 1;
      }
      case OP_RELEASE_MON: {
        MMon& m = M.mons[static_cast<size_t>(o.mon)];
        auto rs = reports();
        bool want = !m.died;
        bool got = rs.size() == 1 && rs[0].kind == RK_STILLALIVE;
        if (rs.size() > 1 || (rs.size() == 1 && !got) || got != want) { why = std::string("release of requirement#") + std::to_string(o.mon) + (want ? " must report 'still alive'" : " must be silent (object died)"); return 0; }
        if (want && m.watched >= 0) { auto& v = M.watched[static_cast<size_t>(m.watched)].monitors; v.erase(std::remove(v.begin(), v.end(), o.mon), v.end()); }
        for (int i = 0; i < m.nseq; ++i) if (m.seq[i] >= 0 && m.in_seq[i]) { M.remove_entry(m.seq[i], true, o.mon); m.in_seq[i] = false; }
        m.alive = false;
        return 1;
      }
      case OP_DROP_MOCK_REF: {
        if (so.kind == SK_ATOMIC) {
          if (--S.refs[o.mock] <= 0) { why = "model says this drop was the last reference but the mock survived"; return 0; }
          return 1;
        }
        int fn = so.arg / 2, pass = so.arg % 2;
        if (fn == destruction_order()[0] && pass == 0) { if (--S.refs[o.mock] != 0) { why = "mock destroyed while the model still counts references"; return 0; } }
        MMock& mm = M.mocks[static_cast<size_t>(o.mock)];
        auto& lst = pass == 0 ? mm.active[fn] : mm.saturated[fn];
        for (int id : lst) {
          MExp& e = M.exps[static_cast<size_t>(id)];
          if (!e.named && !e.sat()) { S.acc[so.op].push_back(id); e.named = true; for (int i = 0; i < e.nseq; ++i) if (e.in_seq[i] && e.seq[i] >= 0) M.seqs[static_cast<size_t>(e.seq[i])].tainted = true; }
          e.attached = false; e.in_saturated = false; e.mock = -1;
        }
        lst.clear();
        if (fn == destruction_order()[NFN - 1] && pass == 1) {
          mm.alive = false;
          std::vector<std::string> want, got;
          for (int id : S.acc[so.op]) want.push_back(exp_key(id, RK_PENDING));
          for (auto& r : reports()) got.push_back(rep_key(r));
          std::sort(want.begin(), want.end()); std::sort(got.begin(), got.end());
          if (want != got) { why = "mock destruction reported " + std::to_string(got.size()) + " pending expectations, model expects " + std::to_string(want.size()); return 0; }
        }
        return 1;
      }
      default: return 1;
    }
  }

  LinResult check(const LinState& init) const {
    LinResult res;
    // ---- hint: critical-section order ----
    bool cs_usable = true;
    for (size_t i = 0; i < ops.size(); ++i) if (!ops[i].cs.empty() && ops[i].cs.size() != expected_cs(static_cast<int>(i))) cs_usable = false;  // (operations of the sequential phases carry no stamps)
    if (no_hint) cs_usable = false;
    if (cs_usable) {
      std::vector<SubOp> all;
      for (size_t i = 0; i < ops.size(); ++i) { auto s = subops_of(static_cast<int>(i), true); all.insert(all.end(), s.begin(), s.end()); }
      std::stable_sort(all.begin(), all.end(), [](const SubOp& a, const SubOp& b) { return a.at < b.at; });
      LinState S = init;
      std::string why; int v = 1;
      for (auto& so : all) { v = apply(S, so, why); ++res.nodes; if (v != 1) break; }
      if (v == 1) return res;
      if (v == 2) { res.verdict = 2; res.text = why; return res; }
      res.text = why;
    }
    // ---- general search ----
    res.by_hint = false;
    std::vector<std::vector<SubOp>> subs(ops.size());
    for (size_t i = 0; i < ops.size(); ++i) subs[i] = subops_of(static_cast<int>(i), false);
    std::vector<size_t> next(ops.size(), 0);
    std::set<std::pair<std::vector<size_t>, uint64_t>> seen;
    long budget = 300000;
    std::string first_why = res.text;
    bool inconclusive = false;
    std::function<bool(LinState&, std::vector<size_t>&)> dfs = [&](LinState& S, std::vector<size_t>& nx) -> bool {
      bool all_done = true;
      for (size_t i = 0; i < ops.size(); ++i) if (nx[i] < subs[i].size()) all_done = false;
      if (all_done) return true;
      if (--budget < 0) { inconclusive = true; return false; }
      if (!seen.insert({nx, S.hash()}).second) { if (debug && dbg_steps > 0) std::fprintf(stderr, "  | dfs: (state seen before)\n"); return false; }
      for (size_t i = 0; i < ops.size(); ++i) {
        if (nx[i] >= subs[i].size()) continue;
        const TOp& o = ops[i];
        bool ok = true;
        for (size_t j = 0; j < ops.size() && ok; ++j) {
          if (j == i || nx[j] >= subs[j].size()) continue;
          const TOp& p = ops[j];
          if (p.task == o.task && p.idx < o.idx) ok = false;          // program order
          else if (p.response < o.invoke) ok = false;                 // real-time order
        }
        if (!ok) continue;
        LinState S2 = S;
        std::string why;
        int v = apply(S2, subs[i][nx[i]], why);
        ++res.nodes;
        if (v == 2) { inconclusive = true; continue; }
        if (v == 0) {
          if (first_why.empty()) first_why = why;
          if (debug && dbg_left-- > 0) { std::fprintf(stderr, "  | dfs: after"); for (size_t q = 0; q < nx.size(); ++q) if (nx[q]) std::fprintf(stderr, " t%d#%d:%zu", ops[q].task, ops[q].idx, nx[q]); std::fprintf(stderr, " -> t%d#%d sub %zu fails: %s\n", o.task, o.idx, nx[i], why.c_str()); }
          continue;
        }
        if (debug && dbg_steps-- > 0) std::fprintf(stderr, "  | dfs: step t%d#%d sub %zu ok\n", o.task, o.idx, nx[i]);
        ++nx[i];
        if (dfs(S2, nx)) return true;
        --nx[i];
      }
      return false;
    };
    LinState S = init;
    if (dfs(S, next)) { res.verdict = 1; res.text.clear(); return res; }
    if (inconclusive) { res.verdict = 2; res.text = "search inconclusive (budget or tainted state): " + first_why; return res; }
    res.verdict = 0;
    res.text = "no order of the operations consistent with program order and real time reproduces the recorded results; first disagreement in critical-section order: " + first_why;
    return res;
  }
};

}  // namespace sim
