// Interface of the Mode T runner (modet.cpp).
#pragma once
#include <string>
#include <vector>

#include "plan.hpp"

namespace sim {

struct TRace { std::string desc, lib_frame, stacks[2]; bool in_library = false; };

struct TResult {
  int sched_status = 0;
  int lin_verdict = 1;   // 1 ok, 0 violation, 2 inconclusive
  std::string lin_text;
  long lin_nodes = 0;
  bool lin_by_hint = true;
  int nops = 0;
  long overlapping_pairs = 0;
  long decisions = 0, switches = 0, blocked = 0, stalls = 0, lock_acqs = 0;
  long calls_accepted = 0, calls_rejected = 0, f_clause_throw = 0, f_stall = 0;
  int teardown_seq_reports = 0;
  uint64_t trace_hash = 0, log_hash = 0, fp_hash = 0;
  std::vector<int> schedule;
  std::vector<TRace> races;
};

Plan gen_plan_t(uint64_t seed, bool faults);
TResult run_modet(const Plan& plan);

}  // namespace sim
