// Report oracles, watched objects, tracers, reporter replacement, cleanup.
#include <algorithm>

#include "exec_impl.hpp"
#include "wide.hpp"

namespace sim {

#define MAX_WATCHED (globals().deep ? 6 : 4)
int max_watched() { return MAX_WATCHED; }
#define MAX_MONS (globals().deep ? 10 : 6)
static const int MAX_TRACERS = 3;

static std::string squeeze(const std::string& s) {
  std::string r;
  for (char c : s) if (c != ' ' && c != '\t') r += c;
  return r;
}

// ---- monitor statements: one source line each ----
template <class W> static EP make_mon0(W* w, trompeloeil::sequence**, unsigned& line) { line = __LINE__; return NAMED_REQUIRE_DESTRUCTION(*w); }
template <class W> static EP make_mon1(W* w, trompeloeil::sequence** s, unsigned& line) { auto& s0 = *s[0]; line = __LINE__; return NAMED_REQUIRE_DESTRUCTION(*w).IN_SEQUENCE(s0); }
template <class W> static EP make_mon2(W* w, trompeloeil::sequence** s, unsigned& line) { auto& s0 = *s[0]; auto& s1 = *s[1]; line = __LINE__; return NAMED_REQUIRE_DESTRUCTION(*w).IN_SEQUENCE(s0, s1); }
// scoped forms: the requirement is a local of this frame and lives as long as the continuation runs
template <class W> static void smon0(W* w, trompeloeil::sequence**, unsigned& line, std::function<void()>& k) { line = __LINE__; REQUIRE_DESTRUCTION(*w); k(); }
template <class W> static void smon1(W* w, trompeloeil::sequence** s, unsigned& line, std::function<void()>& k) { auto& s0 = *s[0]; line = __LINE__; REQUIRE_DESTRUCTION(*w).IN_SEQUENCE(s0); k(); }
template <class W> static void smon2(W* w, trompeloeil::sequence** s, unsigned& line, std::function<void()>& k) { auto& s0 = *s[0]; auto& s1 = *s[1]; line = __LINE__; REQUIRE_DESTRUCTION(*w).IN_SEQUENCE(s0, s1); k(); }
static unsigned g_mon_line[6] = {0, 0, 0, 0, 0, 0};
const MonShape& mon_shape(int nseq, bool scoped) {
  static MonShape t[6];
  int k = nseq + (scoped ? 3 : 0);
  t[k] = MonShape{__FILE__, g_mon_line[k], scoped ? "REQUIRE_DESTRUCTION(*w)" : "NAMED_REQUIRE_DESTRUCTION(*w)", "destructor for *w"};
  return t[k];
}

// ---------------- report oracles ----------------
bool ExecImpl::report_matches(const PRep& p, const XRep& x, std::string& why) {
  auto loc_is = [&](const std::string& f, unsigned long l) { return p.file == f && p.line == l; };
  auto params_are_args = [&](int fn, const int* args) {
    int ar = fn_desc(fn).arity;
    if (static_cast<int>(p.params.size()) != ar) { why = "does not print every actual argument"; return false; }
    for (int i = 0; i < ar; ++i)
      if (p.params[static_cast<size_t>(i)].idx != i + 1 || p.params[static_cast<size_t>(i)].negated || p.params[static_cast<size_t>(i)].rest != arg_text(fn, args[i])) {
        why = "argument _" + std::to_string(i + 1) + " printed as '" + p.params[static_cast<size_t>(i)].rest + "', expected '" + arg_text(fn, args[i]) + "'"; return false; }
    return true;
  };
  if (p.kind != x.kind) { why = std::string("kind is ") + repkind_name(p.kind) + ", expected " + repkind_name(x.kind); return false; }
  if (p.fatal != x.fatal) { why = std::string("severity is ") + (p.fatal ? "fatal" : "non-fatal") + ", expected " + (x.fatal ? "fatal" : "non-fatal"); return false; }
  switch (x.kind) {
    case RK_NOMATCH: {
      if (!loc_is("", 0)) { why = "unexpected location"; return false; }
      if (p.fname != fn_desc(x.fn).name) { why = "names function '" + p.fname + "'"; return false; }
      if (!params_are_args(x.fn, x.args)) return false;
      if (!x.sat_list.empty()) {
        if (!p.saturated_listing) { why = "does not list the saturated expectations that match"; return false; }
        std::vector<std::string> a, b;
        for (auto& l : p.listed) a.push_back(l.text + "@" + l.file + ":" + std::to_string(l.line));
        for (int id : x.sat_list) { const MExp& e = M.exps[id]; b.push_back(std::string(e.sd().text) + "@" + exp_file(e) + ":" + std::to_string(e.line)); }
        std::sort(a.begin(), a.end()); std::sort(b.begin(), b.end());
        if (a != b) { why = "saturated listing differs from the model's"; return false; }
        return true;
      }
      if (p.saturated_listing) { why = "lists saturated expectations although none matches"; return false; }
      if (p.listed.size() != x.tried.size()) { why = "lists " + std::to_string(p.listed.size()) + " expectations, " + std::to_string(x.tried.size()) + " are live on this function"; return false; }
      for (size_t i = 0; i < x.tried.size(); ++i) {
        const MExp& e = M.exps[x.tried[i]];
        const PListed& l = p.listed[i];
        if (l.text != e.sd().text || l.file != exp_file(e) || l.line != e.line) { why = "entry " + std::to_string(i) + " is '" + l.text + "' at line " + std::to_string(l.line) + ", expected (newest first) " + describe_exp(e.id); return false; }
        std::vector<std::string> wantd;
        if (Model::params_accept(e, x.args)) {
          int ff = Model::first_failing_with(e, x.args);
          if (ff >= 0) wantd.push_back("FailedWITH(" + squeeze(e.sd().w[ff].text) + ")");
        } else {
          int ar = fn_desc(e.fn).arity;
          for (int k = 0; k < ar; ++k)
            if (!Model::matcher_accepts(e.sd().m[k], e.v, x.args[k])) {
              bool neg; std::string t = param_text(e, k, neg);
              wantd.push_back(squeeze(std::string("Expected") + (neg ? "not" : "") + "_" + std::to_string(k + 1) + t));
            }
        }
        std::vector<std::string> gotd;
        for (auto& dl : l.details) gotd.push_back(squeeze(dl));
        if (gotd != wantd) {
          why = "entry " + std::to_string(i) + " (" + describe_exp(e.id) + ") explains the rejection as [";
          for (auto& s : gotd) why += s + ";";
          why += "] expected [";
          for (auto& s : wantd) why += s + ";";
          why += "]";
          return false;
        }
      }
      return true;
    }
    case RK_FORBIDDEN: {
      const MExp& e = M.exps[x.exp];
      if (!loc_is(exp_file(e), e.line) || p.text != e.sd().text || p.tfile != exp_file(e) || p.tline != e.line) { why = "names '" + p.text + "' at " + p.tfile + ":" + std::to_string(p.tline) + ", expected " + describe_exp(e.id); return false; }
      return params_are_args(x.fn, x.args);
    }
    case RK_SEQMISMATCH: {
      if (x.mon >= 0) {
        const MMon& m = M.mons[x.mon];
        const MonShape& ms = mon_shape(m.nseq, m.scoped);
        if (!loc_is(ms.file, ms.line) || p.text != ms.call_name) { why = "names '" + p.text + "'"; return false; }
        if (x.seqidx >= 0 && p.seqname != "s" + std::to_string(x.seqidx)) { why = "names sequence \"" + p.seqname + "\""; return false; }
        return true;
      }
      for (int id : x.m_set) {
        const MExp& e = M.exps[id];
        if (M.cost(e) >= 0) continue;
        if (p.text != e.sd().text || p.tfile != exp_file(e) || p.tline != e.line) continue;
        if (!loc_is(exp_file(e), e.line)) continue;
        // the sequence named must be one in which this expectation is not callable
        bool okseq = false;
        for (int i = 0; i < e.nseq; ++i) {
          if (p.seqname != "s" + std::to_string(i)) continue;
          if (e.seq[i] < 0) { okseq = true; break; }
          if (!e.in_seq[i] || M.pos_in(e.seq[i], false, id) < 0) okseq = true;
        }
        if (okseq) return true;
        why = "blames sequence \"" + p.seqname + "\" in which " + describe_exp(id) + " is callable";
      }
      if (why.empty()) why = "names '" + p.text + "' at line " + std::to_string(p.tline) + ", which is not one of the matching, sequence-blocked expectations";
      return false;
    }
    case RK_UNFULFILLED: case RK_PENDING: {
      const MExp& e = M.exps[x.exp];
      if (!loc_is(exp_file(e), e.line) || p.text != e.sd().text) { why = "names '" + p.text + "' at " + p.file + ":" + std::to_string(p.line) + ", expected " + describe_exp(e.id); return false; }
      std::string want = e.L == 1 ? "once" : std::to_string(e.L) + " times";
      std::string got = e.n == 0 ? "never called" : e.n == 1 ? "called once" : "called " + std::to_string(e.n) + " times";
      if (p.want != want || p.got != got) { why = "counts '" + p.want + "' / '" + p.got + "', expected '" + want + "' / '" + got + "'"; return false; }
      int ar = fn_desc(e.fn).arity;
      if (static_cast<int>(p.params.size()) != ar) { why = "does not give every expected parameter value"; return false; }
      for (int i = 0; i < ar; ++i) {
        bool neg; std::string t = param_text(e, i, neg);
        const PParam& pp = p.params[static_cast<size_t>(i)];
        if (pp.idx != i + 1 || pp.negated != neg || squeeze(pp.rest) != squeeze(t)) { why = "parameter _" + std::to_string(i + 1) + " given as '" + (pp.negated ? "not" : "") + pp.rest + "', expected '" + (neg ? "not" : "") + t + "'"; return false; }
      }
      return true;
    }
    case RK_STILLALIVE: {
      const MMon& m = M.mons[x.mon];
      const MonShape& ms = mon_shape(m.nseq, m.scoped);
      if (!loc_is(ms.file, ms.line) || p.objname != "*w") { why = "location/object name differ"; return false; }
      return true;
    }
    case RK_UNEXPECTED:
      if (!loc_is("", 0)) { why = "unexpected location"; return false; }
      return true;
    case RK_SEQNOTMET: {
      if (!loc_is("", 0)) { why = "unexpected location"; return false; }
      auto key = [&](const MEntry& en) {
        if (en.is_mon) { const MonShape& ms = mon_shape(M.mons[en.id].nseq, M.mons[en.id].scoped); return std::string(ms.text) + "@" + ms.file + ":" + std::to_string(ms.line); }
        const MExp& e = M.exps[en.id];
        return std::string(e.sd().text) + "@" + exp_file(e) + ":" + std::to_string(e.line);
      };
      std::vector<std::string> a, b, a2, b2;
      for (auto& l : p.listed) { std::string k = l.text + "@" + l.file + ":" + std::to_string(l.line); a.push_back(k); if (l.text.find("REQUIRE_DESTRUCTION") == std::string::npos) a2.push_back(k); }
      for (auto& en : x.entries) { b.push_back(key(en)); if (!en.is_mon) b2.push_back(key(en)); }
      if (a == b) return true;
      if (x.any_of_m) return true;  // tainted sequence: the listing is not asserted
      if (a2 == b2) { ++st.relax_monitor_listing; return true; }
      why = "lists [";
      for (auto& s : a) why += s + "; ";
      why += "] but still registered, in registration order, are [";
      for (auto& s : b) why += s + "; ";
      why += "]";
      return false;
    }
    default: break;
  }
  why = "unhandled kind";
  return false;
}

void ExecImpl::check_reports(Obs& o, std::vector<XRep>& want, bool multiset, const char* ctx, const char* owner_props) {
  if (stop) return;
  for (auto& r : o.reports) {
    std::string m = r.msg; for (auto& c : m) if (c == '\n') c = '|';
    size_t at = m.find('@'); if (at != std::string::npos && m.compare(0, 10, "Unexpected") == 0) m.resize(at);
    // hex dumps of pointer-holding arguments differ from process to process: not part of the event-log hash
    for (size_t ob = m.find("-byte object={"); ob != std::string::npos; ob = m.find("-byte object={", ob + 1)) {
      size_t cl = m.find('}', ob);
      if (cl == std::string::npos) break;
      m.replace(ob, cl - ob + 1, "-byte object");
    }
    note(std::string("report ") + (r.fatal ? "F " : "N ") + m);
  }
  std::vector<PRep> got;
  for (auto& r : o.reports) {
    got.push_back(parse_report(r));
    if (got.back().kind == RK_UNKNOWN) { fail("C15", "unparsed_report", std::string("during ") + ctx + ": report does not have a recognised form: " + r.msg); return; }
    if (r.gen != M.reporter_gen) { fail("C16", "report_route", "violation report delivered to reporter generation " + std::to_string(r.gen) + ", installed is " + std::to_string(M.reporter_gen)); return; }
  }
  std::string props = owner_props;
  auto describe_want = [&](const XRep& x) {
    std::string s = repkind_name(x.kind);
    if (x.exp >= 0) s += " about " + describe_exp(x.exp);
    if (x.mon >= 0) s += " about monitor#" + std::to_string(x.mon);
    return s;
  };
  if (!multiset) {
    size_t i = 0, j = 0;
    std::string why;
    while (i < want.size()) {
      why.clear();
      if (j < got.size() && report_matches(got[j], want[i], why)) { ++i; ++j; continue; }
      if (want[i].optional) { ++i; continue; }
      if (j < got.size()) fail(props.c_str(), "report_mismatch", std::string("during ") + ctx + ": report '" + got[j].raw + "' " + why + "; expected " + describe_want(want[i]));
      else fail(props.c_str(), "report_missing", std::string("during ") + ctx + ": missing report: " + describe_want(want[i]));
      return;
    }
    if (j < got.size()) {
      // a fatal report out of a destructor context is C15's business as well
      fail(props.c_str(), "report_unexpected", std::string("during ") + ctx + ": unexpected " + (got[j].fatal ? "fatal" : "non-fatal") + " report: " + got[j].raw);
    }
    return;
  }
  std::vector<bool> used(want.size(), false);
  for (auto& g : got) {
    bool found = false; std::string why, lastwhy;
    for (int pass = 0; pass < 2 && !found; ++pass)   // required reports are matched before optional ones
    for (size_t i = 0; i < want.size(); ++i) {
      if (used[i] || want[i].optional != (pass == 1)) continue;
      why.clear();
      if (report_matches(g, want[i], why)) { used[i] = true; found = true; break; }
      if (g.kind == want[i].kind && g.text == (want[i].exp >= 0 ? M.exps[want[i].exp].sd().text : "")) lastwhy = why;
    }
    if (!found) { fail(props.c_str(), "report_unexpected", std::string("during ") + ctx + ": unexpected report: " + g.raw + (lastwhy.empty() ? "" : " (" + lastwhy + ")")); return; }
  }
  for (size_t i = 0; i < want.size(); ++i)
    if (!used[i] && !want[i].optional) { fail(props.c_str(), "report_missing", std::string("during ") + ctx + ": missing report: " + describe_want(want[i])); return; }
}

void ExecImpl::check_no_ok(Obs& o, const char* ctx) {
  if (stop) return;
  if (!o.oks.empty()) fail("C16", "ok_outside_call", std::string("an OK report was sent during ") + ctx);
}

void ExecImpl::drain_stream_tracers(Obs& o) {
  for (auto& t : rtracers) {
    if (t.kind != 1 || !t.str) continue;
    std::string s = t.str->os.str();
    if (s.empty()) continue;
    t.str->os.str("");
    // "<file>:<line>\n<call>\n" per record; records are separated by the location line
    size_t pos = 0;
    while (pos < s.size()) {
      size_t nl = s.find('\n', pos);
      if (nl == std::string::npos) break;
      std::string loc = s.substr(pos, nl - pos);
      size_t colon = loc.rfind(':');
      RawTrace rt; rt.tracer = t.id;
      rt.file = colon == std::string::npos ? loc : loc.substr(0, colon);
      rt.line = colon == std::string::npos ? 0 : std::strtoul(loc.c_str() + colon + 1, nullptr, 10);
      // the call text ends with "\n" and stream_tracer adds one more "\n"
      size_t end = s.find("\n\n", nl + 1);
      std::string body = end == std::string::npos ? s.substr(nl + 1) : s.substr(nl + 1, end + 1 - (nl + 1));
      rt.msg = body;
      o.traces.push_back(rt);
      pos = end == std::string::npos ? s.size() : end + 2;
    }
  }
}

// ---------------- watched objects (C13) ----------------
void ExecImpl::op_new_watched(const Op& op) {
  if (static_cast<int>(M.live_watched().size()) >= MAX_WATCHED) return;
  MWatched w; w.id = static_cast<int>(M.watched.size()); w.kind = 0;
  M.watched.push_back(w);
  if (!shadow) { rwatched.resize(M.watched.size(), nullptr); rwatched_mock.resize(M.watched.size(), nullptr); rwatched[static_cast<size_t>(w.id)] = new trompeloeil::deathwatched<Plain>(op.a[1]); }
}

void ExecImpl::op_req_destruction(const Op& op, std::function<void()>* scope_body) {
  int wid = pick(M.live_watched(), op.a[0]);
  if (wid < 0 || static_cast<int>(M.live_mons().size()) >= MAX_MONS) return;
  if (!M.watched[wid].monitors.empty()) {
    if (!globals().known_multi_monitor_allowed) return;
    ++st.p_multi_monitor;
  }
  int nseq = ((op.a[1] % 3) + 3) % 3;
  MMon m; m.id = static_cast<int>(M.mons.size()); m.watched = wid; m.actor = op.a[9] & 3; m.nseq = nseq; m.order = M.clock++;
  std::vector<int> live = M.live_seqs();
  while (static_cast<int>(live.size()) < nseq) {
    MSeq s; s.id = static_cast<int>(M.seqs.size()); M.seqs.push_back(s);
    if (!shadow) rseqs.push_back(std::unique_ptr<trompeloeil::sequence>(new trompeloeil::sequence));
    live = M.live_seqs();
  }
  for (int i = 0; i < nseq; ++i) {
    size_t rot = static_cast<unsigned>(op.a[7]) % live.size();
    m.seq[i] = live[(rot + static_cast<size_t>(i)) % live.size()];
    m.in_seq[i] = true;
    M.seqs[m.seq[i]].list.push_back(MEntry{true, m.id});
  }
  const bool scoped = (op.a[8] & 2) && (shadow ? depth == 1 : scope_body != nullptr);
  m.scoped = scoped;
  M.mons.push_back(m);
  M.watched[wid].monitors.push_back(m.id);
  nontriv("C13"); if (nseq) nontriv("C05");
  if (shadow) { if (scoped) scope_stack.push_back({true, m.id}); return; }
  if (scoped) {
    const int id = m.id;
    trompeloeil::sequence* sq2[2] = {nullptr, nullptr};
    for (int i = 0; i < nseq; ++i) sq2[i] = rseqs[static_cast<size_t>(m.seq[i])].get();
    rmons.resize(M.mons.size());
    Obs oc, od;
    std::vector<XRep> want_release;
    bool entered = false, unwinding = false;
    std::function<void()> inner = [&]() {
      entered = true;
      obs_stack.pop_back();
      std::vector<XRep> none;
      check_reports(oc, none, false, "require_destruction (scoped form)", "C13,C15");
      if (!stop) { observe_flags(); state_hashes.push_back(M.hash()); }
      bool aborted = false;
      if (!stop) { try { (*scope_body)(); } catch (scope_abort const&) { aborted = true; } }
      if (!stop) want_release = release_mon_model(id);
      obs_stack.push_back(&od);
      if (aborted) { unwinding = true; throw scope_abort{}; }
    };
    obs_stack.push_back(&oc);
    bool threw = false;
    try {
      auto* wm = rwatched_mock[static_cast<size_t>(wid)];
      if (wm) { auto* w = wm; if (nseq == 0) smon0(w, sq2, g_mon_line[3], inner); else if (nseq == 1) smon1(w, sq2, g_mon_line[4], inner); else smon2(w, sq2, g_mon_line[5], inner); }
      else { auto* w = rwatched[static_cast<size_t>(wid)];
      if (nseq == 0) smon0(w, sq2, g_mon_line[3], inner); else if (nseq == 1) smon1(w, sq2, g_mon_line[4], inner); else smon2(w, sq2, g_mon_line[5], inner); }
    } catch (scope_abort const&) {}
    catch (...) { threw = true; }
    obs_stack.pop_back();
    if (stop) { if (unwinding) throw scope_abort{}; return; }
    if (threw || !entered) { fail("C13", "require_destruction_threw", "REQUIRE_DESTRUCTION threw"); return; }
    check_reports(od, want_release, false, unwinding ? "end of scope of a destruction requirement (left by an exception)" : "end of scope of a destruction requirement", "C13,C15");
    if (!stop && !unwinding) { observe_flags(); state_hashes.push_back(M.hash()); }
    if (unwinding) throw scope_abort{};
    return;
  }
  Obs o; obs_stack.push_back(&o);
  trompeloeil::sequence* sq[2] = {nullptr, nullptr};
  for (int i = 0; i < nseq; ++i) sq[i] = rseqs[static_cast<size_t>(m.seq[i])].get();
  EP ep;
  if (auto* wm = rwatched_mock[static_cast<size_t>(wid)]) {
    if (nseq == 0) ep = make_mon0(wm, sq, g_mon_line[0]); else if (nseq == 1) ep = make_mon1(wm, sq, g_mon_line[1]); else ep = make_mon2(wm, sq, g_mon_line[2]);
  }
  else if (nseq == 0) ep = make_mon0(rwatched[static_cast<size_t>(wid)], sq, g_mon_line[0]);
  else if (nseq == 1) ep = make_mon1(rwatched[static_cast<size_t>(wid)], sq, g_mon_line[1]);
  else ep = make_mon2(rwatched[static_cast<size_t>(wid)], sq, g_mon_line[2]);
  obs_stack.pop_back();
  rmons.resize(M.mons.size());
  rmons[static_cast<size_t>(m.id)] = std::move(ep);
  std::vector<XRep> none;
  check_reports(o, none, false, "require_destruction", "C13,C15");
}

void ExecImpl::op_destroy_watched(const Op& op) {
  int wid = pick(M.live_watched(), op.a[0]);
  if (wid < 0) return;
  if (M.watched[wid].mock >= 0) { if (!busy_mocks.count(M.watched[wid].mock)) destroy_watched_mock(M.watched[wid].mock); return; }
  std::vector<XRep> want;
  watched_death_model(wid, want);
  nontriv("C13"); nontriv("C14");
  if (shadow) return;
  Obs o; obs_stack.push_back(&o);
  const bool uw = (op.a[3] & 1) != 0;
  if (uw) ++st.f_unwinding_death;
  run_during_unwinding(uw, [&]() { delete rwatched[static_cast<size_t>(wid)]; });
  rwatched[static_cast<size_t>(wid)] = nullptr;
  obs_stack.pop_back();
  check_reports(o, want, true, uw ? "destruction of a watched object (by stack unwinding)" : "destruction of a watched object", "C13,C15,C05");
  check_no_ok(o, "destroy_watched");
}

// the model side of a watched object's death: what must (not) be reported, which requirements become satisfied
void ExecImpl::watched_death_model(int wid, std::vector<XRep>& want) {
  MWatched& w = M.watched[wid];
  if (w.monitors.empty()) {
    XRep x; x.kind = RK_UNEXPECTED; x.fatal = false; want.push_back(x);
    ++st.p_monitor_unexpected;
  } else {
    ++st.p_monitor_ok;
    // in order of creation
    std::vector<int> ms = w.monitors;
    std::sort(ms.begin(), ms.end(), [&](int a, int b) { return M.mons[a].order < M.mons[b].order; });
    for (int mid : ms) {
      MMon& m = M.mons[mid];
      for (int i = 0; i < m.nseq; ++i) {
        if (m.seq[i] < 0) {
          // that sequence object was destroyed while the requirement was registered: what the requirement then does
          // is fixed by no property (DESIGN 3.5), a report is allowed, not required
          XRep x; x.kind = RK_SEQMISMATCH; x.fatal = false; x.mon = mid; x.seqidx = i; x.optional = true; want.push_back(x);
          continue;
        }
        bool eligible = m.in_seq[i] && M.pos_in(m.seq[i], true, mid) >= 0;
        if (!eligible && !M.seqs[m.seq[i]].tainted) {
          // reported non-fatally, once per violated sequence, and the death still counts (C05): the sequence itself goes on
          // as the model says - what is registered before the requirement is passed, what comes after it stays
          XRep x; x.kind = RK_SEQMISMATCH; x.fatal = false; x.mon = mid; x.seqidx = i; want.push_back(x);
          ++st.p_monitor_seq_violation;
        } else if (M.seqs[m.seq[i]].tainted) {
          // after a reported violation nothing is asserted about this sequence (DESIGN 3.5): a report is allowed, not required
          XRep x; x.kind = RK_SEQMISMATCH; x.fatal = false; x.mon = mid; x.seqidx = i; x.optional = true; want.push_back(x);
        }
      }
      m.died = true;
      for (int i = 0; i < m.nseq; ++i) if (m.seq[i] >= 0 && m.in_seq[i]) M.retire_until(m.seq[i], true, mid);
    }
  }
  w.alive = false;
  w.monitors.clear();
}

void ExecImpl::op_copy_watched(const Op& op, bool move) {
  int wid = pick(live_plain_watched(), op.a[0]);   // (a watched mock is neither copyable nor movable)
  if (wid < 0 || static_cast<int>(M.live_watched().size()) >= MAX_WATCHED) return;
  MWatched w; w.id = static_cast<int>(M.watched.size());
  M.watched.push_back(w);
  ++st.f_relocate;
  nontriv("C13");
  if (shadow) return;
  Obs o; obs_stack.push_back(&o);
  auto* src = rwatched[static_cast<size_t>(wid)];
  // a const source selects the implicit copy constructor, a non-const lvalue the forwarding constructor template
  rwatched.resize(M.watched.size(), nullptr); rwatched_mock.resize(M.watched.size(), nullptr);
  auto*& slot = rwatched[M.watched.size() - 1];
  if (move) slot = new trompeloeil::deathwatched<Plain>(std::move(*src));
  else if (op.a[1] & 1) slot = new trompeloeil::deathwatched<Plain>(static_cast<const trompeloeil::deathwatched<Plain>&>(*src));
  else slot = new trompeloeil::deathwatched<Plain>(*src);
  obs_stack.pop_back();
  std::vector<XRep> none;
  check_reports(o, none, false, "copy/move construction of a watched object", "C13");
}

void ExecImpl::op_assign_watched(const Op& op) {
  std::vector<int> live = live_plain_watched();
  if (live.size() < 2) return;
  int dst = pick(live, op.a[0]);
  int src = pick(live, op.a[1]);
  if (dst == src) src = live[(static_cast<size_t>(std::find(live.begin(), live.end(), dst) - live.begin()) + 1) % live.size()];
  if (!M.watched[dst].monitors.empty() && !globals().known_assign_watched_allowed) return;
  ++st.f_relocate; ++st.p_assign_watched;
  nontriv("C13");
  if (shadow) return;
  Obs o; obs_stack.push_back(&o);
  if (op.a[2] & 1) *rwatched[static_cast<size_t>(dst)] = std::move(*rwatched[static_cast<size_t>(src)]);
  else *rwatched[static_cast<size_t>(dst)] = *rwatched[static_cast<size_t>(src)];
  obs_stack.pop_back();
  std::vector<XRep> none;
  check_reports(o, none, false, "assignment to a watched object", "C13");
}

std::vector<XRep> ExecImpl::release_mon_model(int id) {
  MMon& m = M.mons[id];
  std::vector<XRep> want;
  if (!m.died) {
    XRep x; x.kind = RK_STILLALIVE; x.fatal = false; x.mon = id; want.push_back(x);
    ++st.p_monitor_still_alive;
    if (m.watched >= 0) {
      auto& v = M.watched[m.watched].monitors;
      v.erase(std::remove(v.begin(), v.end(), id), v.end());
    }
  }
  for (int i = 0; i < m.nseq; ++i) if (m.seq[i] >= 0 && m.in_seq[i]) { M.remove_entry(m.seq[i], true, id); m.in_seq[i] = false; }
  m.alive = false;
  nontriv("C13");
  return want;
}

void ExecImpl::release_mon(int id) {
  std::vector<XRep> want = release_mon_model(id);
  if (shadow) return;
  Obs o; obs_stack.push_back(&o);
  rmons[static_cast<size_t>(id)].reset();
  obs_stack.pop_back();
  check_reports(o, want, false, "release of a destruction requirement", "C13,C15");
}

void ExecImpl::op_release_mon(const Op& op) {
  int id = pick(M.live_mons(), op.a[0]);
  if (id < 0 || M.mons[static_cast<size_t>(id)].scoped) return;   // a scoped requirement ends with its scope only
  release_mon(id);
}

// ---------------- tracers / reporter ----------------
void ExecImpl::op_push_tracer(const Op& op) {
  if (static_cast<int>(M.tracers.size()) >= MAX_TRACERS) return;
  int id = M.next_tracer++;
  M.tracers.push_back(id);
  ++st.f_tracer_nest;
  if (shadow) return;
  RTracer t; t.id = id; t.kind = op.a[0] & 1;
  if (t.kind == 0) t.rec.reset(new RecTracer(id)); else t.str.reset(new StreamRec(id));
  rtracers.push_back(std::move(t));
}

void ExecImpl::op_pop_tracer(const Op&) {
  if (M.tracers.empty()) return;
  M.tracers.pop_back();
  if (shadow) return;
  rtracers.pop_back();
}

void ExecImpl::op_set_reporter(const Op& op) {
  const int prev = M.reporter_gen, prev_ok = M.ok_gen;
  const bool both = (op.a[0] & 1) == 0;   // two-argument overload replaces both, the one-argument overload leaves the OK reporter alone
  const int gen = std::max(M.reporter_gen, M.ok_gen) + 1;
  M.reporter_gen = gen;
  if (both) M.ok_gen = gen;
  ++st.f_reporter_swap;
  nontriv("C16");
  if (shadow) return;
  auto rf = [gen](trompeloeil::severity s, char const* file, unsigned long line, std::string const& msg) {
    bool fatal = s == trompeloeil::severity::fatal;
    if (g_cur) { g_cur->cur_obs().reports.push_back(RawReport{gen, fatal, file ? file : "", line, msg}); g_cur->on_report(fatal); }
    if (fatal) throw fatal_report{};
  };
  auto of = [gen](char const* msg) { if (g_cur) g_cur->cur_obs().oks.push_back(RawOk{gen, msg ? msg : ""}); };
  // C16: what comes back is what was installed before
  Obs o; obs_stack.push_back(&o);
  if (both) {
    auto old = trompeloeil::set_reporter(rf, of);
    if (old.first) old.first(trompeloeil::severity::nonfatal, "probe", 1, "probe");
    if (old.second) old.second("probe");
  } else {
    auto old = trompeloeil::set_reporter(rf);
    if (old) old(trompeloeil::severity::nonfatal, "probe", 1, "probe");
  }
  obs_stack.pop_back();
  bool ok = o.reports.size() == 1 && o.reports[0].gen == prev;
  if (both) ok = ok && o.oks.size() == 1 && o.oks[0].gen == prev_ok; else ok = ok && o.oks.empty();
  if (!ok) fail("C16", "set_reporter_returns_previous", "set_reporter did not return the previously installed reporter(s) (violation reporter generation " + std::to_string(prev) + ", OK reporter generation " + std::to_string(prev_ok) + ")");
}

// ---------------- C09: arity 0..15, every passing mode (instantiation, see DESIGN 6) ----------------
void ExecImpl::op_wide(const Op& op) {
  if (shadow || wide_case_count == 0) return;   // (count 0: the stub is linked, the family did not compile - C09's check says so)
  nontriv("C09");
  int c = static_cast<int>(static_cast<unsigned>(op.a[0]) % static_cast<unsigned>(wide_case_count));
  WideRun R;
  Obs o; obs_stack.push_back(&o);
  bool threw = false;
  try { wide_run(c, R, ((op.a[1] % 50) + 50) % 50); } catch (...) { threw = true; }
  obs_stack.pop_back();
  drain_stream_tracers(o);   // a tracer may be alive: its record of this call belongs to this operation, not to the next call
  std::string who = std::string("wide call ") + R.name + " (arity " + std::to_string(R.n) + ")";
  if (threw || !o.reports.empty()) { fail("C09,C01", "wide_rejected", who + " with wildcard matchers was not accepted" + (o.reports.empty() ? "" : ": " + o.reports[0].msg)); return; }
  if (R.ident < 0) {
    if (R.copies != 0 || !R.satisfied) fail("C09", "wide_throw_move", who + ": THROW(std::move(_k)) must move the argument into the exception (copies made: " + std::to_string(R.copies) + ", exception received intact: " + std::to_string(R.satisfied) + ")");
    return;
  }
  if (R.ident) {
    if (R.ret_addr != R.want_ret || !R.satisfied) fail("C08,C09", "wide_return_identity", who + ": RETURN(_" + std::to_string(R.ident) + ") did not hand the caller its own argument (that very object)");
    return;
  }
  if (R.hits[0] < 1 || R.hits[1] != 1 || R.hits[2] != 1 || R.returned != 4242 + R.n || !R.satisfied) { fail("C09,C08", "wide_clauses", who + ": clause evaluation counts WITH/SIDE_EFFECT/RETURN = " + std::to_string(R.hits[0]) + "/" + std::to_string(R.hits[1]) + "/" + std::to_string(R.hits[2]) + ", returned " + std::to_string(R.returned)); return; }
  static const char* ph[3] = {"WITH", "SIDE_EFFECT", "RETURN"};
  for (int k = 1; k <= R.n; ++k) {
    for (int p = 0; p < 3; ++p) {
      long wv = R.want_val[k];
      if (p == 2 && (R.mode[k] == WM_REF || R.mode[k] == WM_PTR)) wv = 1000 + k;   // written through by an earlier side effect
      if (R.seen[p][k].val != wv) { fail("C09", "wide_position", who + ": _" + std::to_string(k) + " in " + ph[p] + " has value " + std::to_string(R.seen[p][k].val) + ", the caller passed " + std::to_string(wv) + " at that position"); return; }
      if (R.mode[k] == WM_VAL) { if (R.seen[p][k].addr != R.seen[0][k].addr || !R.seen[p][k].addr) { fail(p == 2 ? "C09,C08" : "C09", "wide_alias", who + ": _" + std::to_string(k) + " is a different object in " + ph[p]); return; } }
      else if ((R.mode[k] == WM_REF || R.mode[k] == WM_PREF) && !R.seen[p][k].nc) { fail("C09", "wide_const", who + ": _" + std::to_string(k) + " in " + ph[p] + " is const although the parameter is a non-const reference (a write through it could not reach the caller)"); return; }
      else if (R.seen[p][k].addr != R.want_addr[k]) { fail(p == 2 ? "C09,C08" : "C09", "wide_alias", who + ": _" + std::to_string(k) + " in " + ph[p] + " does not alias the caller's argument (passing mode " + std::to_string(R.mode[k]) + ")"); return; }
    }
    if ((R.mode[k] == WM_REF || R.mode[k] == WM_PTR) && R.after[k] != 1000 + k) { fail("C09", "wide_out_param", who + ": a write through _" + std::to_string(k) + " is not seen by the caller"); return; }
  }
  if (R.copies != 0) { fail("C09", "no_copy", who + ": a move-only argument's pointee was copied"); return; }
}

// ---------------- end of run ----------------
void ExecImpl::final_cleanup() {
  // everything the plan left alive goes away without checks (sanitizers still watch); reports are ignored
  Obs o; obs_stack.push_back(&o);
  try {
    for (auto& r : rexps) r.ep.reset();
    for (auto& m : rmons) m.reset();
    for (auto& w : rwatched) { delete w; w = nullptr; }
    for (auto& r : rmocks) { delete r.a; delete r.m; r.a = nullptr; r.m = nullptr; }
    moved_from_seqs.clear();
    rseqs.clear();
    while (!rtracers.empty()) rtracers.pop_back();
    rexps.clear();
  } catch (...) {}
  obs_stack.pop_back();
}

}  // namespace sim
