// The one PRNG behind every choice of a run (DESIGN.md 3.3): splitmix64-seeded xoshiro256**.
#pragma once
#include <cstdint>

namespace sim {

struct Rng {
  uint64_t s[4];
  explicit Rng(uint64_t seed = 0) { reseed(seed); }
  void reseed(uint64_t seed) {
    uint64_t z = seed + 0x9e3779b97f4a7c15ULL;
    for (int i = 0; i < 4; ++i) {
      z += 0x9e3779b97f4a7c15ULL;
      uint64_t x = z;
      x = (x ^ (x >> 30)) * 0xbf58476d1ce4e5b9ULL;
      x = (x ^ (x >> 27)) * 0x94d049bb133111ebULL;
      s[i] = x ^ (x >> 31);
    }
  }
  static uint64_t rotl(uint64_t x, int k) { return (x << k) | (x >> (64 - k)); }
  uint64_t next() {
    uint64_t r = rotl(s[1] * 5, 7) * 9, t = s[1] << 17;
    s[2] ^= s[0]; s[3] ^= s[1]; s[1] ^= s[2]; s[0] ^= s[3]; s[2] ^= t; s[3] = rotl(s[3], 45);
    return r;
  }
  // uniform in [0, n)
  int below(int n) { return n <= 1 ? 0 : static_cast<int>(next() % static_cast<uint64_t>(n)); }
  int range(int lo, int hi) { return lo + below(hi - lo + 1); }
  bool chance(int num, int den) { return below(den) < num; }
  // weighted pick: returns index
  int pick(const int* w, int n) {
    long tot = 0;
    for (int i = 0; i < n; ++i) tot += w[i];
    if (tot <= 0) return 0;
    long r = static_cast<long>(next() % static_cast<uint64_t>(tot));
    for (int i = 0; i < n; ++i) { if (r < w[i]) return i; r -= w[i]; }
    return n - 1;
  }
};

inline uint64_t fnv1a(uint64_t h, const void* p, size_t n) {
  const unsigned char* c = static_cast<const unsigned char*>(p);
  for (size_t i = 0; i < n; ++i) { h ^= c[i]; h *= 0x100000001b3ULL; }
  return h;
}

}  // namespace sim
