// What one operation produced (Obs) and the parser for trompeloeil's violation reports
// (DESIGN.md Appendix A, "report grammar"). Parsing keys on the fixed prefixes in the headers.
#pragma once
#include <cstdlib>
#include <cstring>
#include <string>
#include <vector>

namespace sim {

struct ClauseEv { char kind; int inst; int k; long val; const void* a1; const void* a2; long msnap; /* model's live value of the local when the clause ran */ };
struct RawReport { int gen; bool fatal; std::string file; unsigned long line; std::string msg; };
struct RawOk { int gen; std::string msg; };
struct RawTrace { int tracer; std::string file; unsigned long line; std::string msg; };

enum Outcome { OC_NONE, OC_RET_INT, OC_RET_VOID, OC_RET_STR, OC_RET_REF, OC_THREW_FATAL, OC_THREW_FAULT,
               OC_THREW_STD, OC_THREW_INT, OC_THREW_LOGIC, OC_THREW_OTHER, OC_FLAG, OC_DONE, OC_THREW_USER };

inline const char* outcome_name(int o) {
  static const char* n[] = {"none", "ret_int", "ret_void", "ret_str", "ret_ref", "threw_fatal_report", "threw_clause_fault",
                            "threw_std", "threw_int", "threw_logic_error", "threw_other", "flag", "done", "threw_user_type"};
  return n[o];
}

struct Obs {
  int outcome = OC_NONE;
  long value = 0;
  std::string sval;
  const void* refaddr = nullptr;
  bool flag = false, flag2 = false;
  std::vector<ClauseEv> clauses;
  std::vector<RawReport> reports;
  std::vector<RawOk> oks;
  std::vector<RawTrace> traces;
  long tracked_copies = 0, tracked_moves = 0;
};

enum RepKind { RK_NOMATCH, RK_FORBIDDEN, RK_SEQMISMATCH, RK_UNFULFILLED, RK_PENDING, RK_STILLALIVE, RK_UNEXPECTED,
               RK_SEQNOTMET, RK_UNKNOWN };

inline const char* repkind_name(int k) {
  static const char* n[] = {"no-match", "forbidden", "sequence-mismatch", "unfulfilled", "pending-on-destroyed-mock",
                            "still-alive", "unexpected-destruction", "sequence-not-met", "unknown"};
  return n[k];
}

struct PListed { std::string text, file; unsigned long line = 0; std::vector<std::string> details; };
struct PParam { int idx; bool negated; std::string rest; };

struct PRep {
  int kind = RK_UNKNOWN;
  bool fatal = false;
  std::string file; unsigned long line = 0;  // as given to the reporter
  std::string text, tfile; unsigned long tline = 0;  // expectation named in the message
  std::string fname;
  std::vector<PParam> params;
  std::string want, got;
  bool saturated_listing = false;
  std::vector<PListed> listed;
  std::string seqname;
  bool seq_empty = false;
  std::vector<std::pair<PListed, bool>> seq_entries;  // second: true = "first in line" (optional), false = first required
  std::string objname;
  std::string raw;
};

namespace detail {
inline std::vector<std::string> split_lines(const std::string& s) {
  std::vector<std::string> r; size_t i = 0;
  while (i <= s.size()) {
    size_t j = s.find('\n', i);
    if (j == std::string::npos) { if (i < s.size()) r.push_back(s.substr(i)); break; }
    r.push_back(s.substr(i, j - i)); i = j + 1;
  }
  return r;
}
inline bool starts(const std::string& s, const char* p) { return s.compare(0, std::strlen(p), p) == 0; }
// "<text> at <file>:<line>" -> parts; returns false when no location is present
inline bool split_at_loc(const std::string& s, std::string& text, std::string& file, unsigned long& line) {
  size_t p = s.rfind(" at ");
  if (p == std::string::npos) return false;
  std::string loc = s.substr(p + 4);
  size_t c = loc.rfind(':');
  if (c == std::string::npos) return false;
  char* end = nullptr;
  unsigned long l = std::strtoul(loc.c_str() + c + 1, &end, 10);
  if (end == loc.c_str() + c + 1) return false;
  text = s.substr(0, p); file = loc.substr(0, c); line = l;
  return true;
}
// "  param  _1 == 3" / "  param not _1 == 3" / "  Expected  _2 >= 4"
inline bool parse_param(const std::string& l, const char* lead, PParam& out) {
  if (!starts(l, lead)) return false;
  size_t i = std::strlen(lead);
  while (i < l.size() && l[i] == ' ') ++i;
  out.negated = false;
  if (l.compare(i, 4, "not ") == 0) { out.negated = true; i += 4; while (i < l.size() && l[i] == ' ') ++i; }
  if (i >= l.size() || l[i] != '_') return false;
  ++i;
  int n = 0; bool any = false;
  while (i < l.size() && l[i] >= '0' && l[i] <= '9') { n = n * 10 + (l[i] - '0'); ++i; any = true; }
  if (!any) return false;
  out.idx = n; out.rest = l.substr(i);
  return true;
}
}  // namespace detail

// normalise things that legitimately differ between runs (addresses, hex dumps of pointers)
inline std::string normalise_value(const std::string& s) {
  size_t p = s.find("-byte object={");
  if (p != std::string::npos) return " == <object>";
  return s;
}

inline PRep parse_report(const RawReport& r) {
  using namespace detail;
  PRep p; p.fatal = r.fatal; p.file = r.file; p.line = r.line; p.raw = r.msg;
  std::vector<std::string> L = split_lines(r.msg);
  if (L.empty()) return p;
  const std::string& h = L[0];
  if (starts(h, "No match for call of ")) {
    p.kind = RK_NOMATCH;
    size_t e = h.find(" with signature ");
    const size_t n0 = std::strlen("No match for call of ");
    p.fname = h.substr(n0, e == std::string::npos ? std::string::npos : e - n0);
    size_t i = 1;
    PParam pp;
    while (i < L.size() && parse_param(L[i], "  param", pp)) { pp.rest = normalise_value(pp.rest); p.params.push_back(pp); ++i; }
    while (i < L.size()) {
      if (L[i].empty()) { ++i; continue; }
      if (L[i] == "Matches saturated call requirement") { p.saturated_listing = true; ++i; continue; }
      if (p.saturated_listing) {
        PListed pl; std::string s = L[i];
        while (!s.empty() && s[0] == ' ') s.erase(0, 1);
        if (!split_at_loc(s, pl.text, pl.file, pl.line)) { p.kind = RK_UNKNOWN; return p; }
        p.listed.push_back(pl); ++i; continue;
      }
      if (starts(L[i], "Tried ")) {
        PListed pl;
        if (!split_at_loc(L[i].substr(6), pl.text, pl.file, pl.line)) { p.kind = RK_UNKNOWN; return p; }
        ++i;
        while (i < L.size() && !L[i].empty() && !starts(L[i], "Tried ")) { pl.details.push_back(L[i]); ++i; }
        p.listed.push_back(pl); continue;
      }
      p.kind = RK_UNKNOWN; return p;
    }
    return p;
  }
  if (starts(h, "Match of forbidden call of ")) {
    p.kind = RK_FORBIDDEN;
    if (!split_at_loc(h.substr(std::strlen("Match of forbidden call of ")), p.text, p.tfile, p.tline)) { p.kind = RK_UNKNOWN; return p; }
    PParam pp;
    for (size_t i = 1; i < L.size(); ++i) {
      if (parse_param(L[i], "  param", pp)) { pp.rest = normalise_value(pp.rest); p.params.push_back(pp); }
      else if (!L[i].empty()) { p.kind = RK_UNKNOWN; return p; }
    }
    return p;
  }
  if (starts(h, "Sequence mismatch for sequence \"")) {
    p.kind = RK_SEQMISMATCH;
    const size_t n0 = std::strlen("Sequence mismatch for sequence \"");
    size_t q = h.find('"', n0);
    if (q == std::string::npos) { p.kind = RK_UNKNOWN; return p; }
    p.seqname = h.substr(n0, q - n0);
    const char* mid = "\" with matching call of ";
    size_t m = h.find(mid, q);
    if (m == std::string::npos) { p.kind = RK_UNKNOWN; return p; }
    std::string rest = h.substr(m + std::strlen(mid));
    // "<text> at <file>:<line>." or "... . Sequence "s" has no more pending expectations"
    size_t np = rest.find(". Sequence \"");
    if (np != std::string::npos && rest.find("has no more pending expectations") != std::string::npos) {
      p.seq_empty = true; rest = rest.substr(0, np);
    } else if (!rest.empty() && rest.back() == '.') rest.pop_back();
    if (!split_at_loc(rest, p.text, p.tfile, p.tline)) { p.kind = RK_UNKNOWN; return p; }
    for (size_t i = 1; i < L.size(); ++i) {
      std::string s = L[i];
      if (s.empty()) continue;
      size_t hp = s.find(" has ");
      std::string body;
      if (starts(s, "Sequence \"") && hp != std::string::npos) body = s.substr(hp + 5);
      else if (starts(s, "and has ")) body = s.substr(8);
      else { p.kind = RK_UNKNOWN; return p; }
      bool optional;
      const char* t1 = " first in line"; const char* t2 = " as first required expectation";
      if (body.size() > std::strlen(t1) && body.compare(body.size() - std::strlen(t1), std::strlen(t1), t1) == 0) { optional = true; body.resize(body.size() - std::strlen(t1)); }
      else if (body.size() > std::strlen(t2) && body.compare(body.size() - std::strlen(t2), std::strlen(t2), t2) == 0) { optional = false; body.resize(body.size() - std::strlen(t2)); }
      else { p.kind = RK_UNKNOWN; return p; }
      PListed pl;
      if (!split_at_loc(body, pl.text, pl.file, pl.line)) { p.kind = RK_UNKNOWN; return p; }
      p.seq_entries.push_back({pl, optional});
    }
    return p;
  }
  bool unf = starts(h, "Unfulfilled expectation:"), pend = starts(h, "Pending expectation on destroyed mock object:");
  if (unf || pend) {
    p.kind = unf ? RK_UNFULFILLED : RK_PENDING;
    if (L.size() < 2 || !starts(L[1], "Expected ")) { p.kind = RK_UNKNOWN; return p; }
    const std::string& e = L[1];
    size_t a = e.find(" to be called "), b = e.find(", actually ");
    if (a == std::string::npos || b == std::string::npos || b < a) { p.kind = RK_UNKNOWN; return p; }
    p.text = e.substr(9, a - 9);
    p.want = e.substr(a + 14, b - (a + 14));
    p.got = e.substr(b + 11);
    PParam pp;
    for (size_t i = 2; i < L.size(); ++i) {
      if (parse_param(L[i], "  param", pp)) { pp.rest = normalise_value(pp.rest); p.params.push_back(pp); }
      else if (!L[i].empty()) { p.kind = RK_UNKNOWN; return p; }
    }
    return p;
  }
  if (starts(h, "Object ") && h.size() > 16 && h.compare(h.size() - 15, 15, " is still alive") == 0) {
    p.kind = RK_STILLALIVE; p.objname = h.substr(7, h.size() - 7 - 15); return p;
  }
  if (starts(h, "Unexpected destruction of ")) {
    p.kind = RK_UNEXPECTED; p.objname = h.substr(26); return p;
  }
  if (starts(h, "Sequence expectations not met at destruction of sequence object \"")) {
    p.kind = RK_SEQNOTMET;
    const size_t n0 = std::strlen("Sequence expectations not met at destruction of sequence object \"");
    size_t q = h.find('"', n0);
    p.seqname = q == std::string::npos ? "" : h.substr(n0, q - n0);
    for (size_t i = 1; i < L.size(); ++i) {
      if (L[i].empty()) continue;
      if (!starts(L[i], "  missing ")) { p.kind = RK_UNKNOWN; return p; }
      PListed pl;
      if (!split_at_loc(L[i].substr(10), pl.text, pl.file, pl.line)) { p.kind = RK_UNKNOWN; return p; }
      p.listed.push_back(pl);
    }
    return p;
  }
  return p;
}

}  // namespace sim
