// Infrastructure of the executor: registry, recording, hooks, driving loop.
#include <cstdio>
#include <cstdlib>

#include "exec_impl.hpp"

namespace sim {

std::atomic<long> Tracked::copies{0}, Tracked::moves{0}, Tracked::live{0};

static ShapeFns g_fns[1024];
ShapeReg::ShapeReg(int id, const char* file, MakeFn a, MakeFn m, ScopedFn sa, ScopedFn sm) { g_fns[id].file = file; g_fns[id].make[0] = a; g_fns[id].make[1] = m; g_fns[id].scoped[0] = sa; g_fns[id].scoped[1] = sm; }
const ShapeFns& shape_fns(int id) { return g_fns[id]; }
int val(const std::string& s) { return std::atoi(s.c_str()); }

thread_local ExecImpl* g_cur = nullptr;
Globals& globals() { static Globals g; return g; }
volatile int g_last_op_kind = -1;

// ---------------- clause hooks ----------------
thread_local ClauseSink* t_sink = nullptr;
static inline void log_clause(char kind, int id, int k, long v, const void* a1, const void* a2) { if (t_sink) t_sink->clause_log(kind, id, k, v, a1, a2); }
static inline void point() { if (t_sink) t_sink->clause_point(); }
bool w(int id, int k, bool cond) { log_clause('W', id, k, cond ? 1 : 0, nullptr, nullptr); return cond; }
void se(int id, int k, int snap, const void* a1, const void* a2) { log_clause('S', id, k, snap, a1, a2); point(); }
int ret(int id, int snap, const void* a1, const void* a2) { log_clause('R', id, 0, snap, a1, a2); point(); return id * 8 + (snap & 7); }
int& retref(int id, int snap, int& target, const void* a1) { log_clause('R', id, 0, snap, a1, &target); point(); return target; }
const int& retcref(int id, int snap, const int& target, const void* a1) { log_clause('R', id, 0, snap, a1, &target); point(); return target; }
std::string rets(int id, int snap, const void* a1) { log_clause('R', id, 0, snap, a1, nullptr); point(); return std::to_string(id * 8 + (snap & 7)); }
std::string& retsr(int id, int snap, std::string& target, const void* a1) { log_clause('R', id, 0, snap, a1, &target); point(); return target; }
std::pair<int, int> retp(int id, int snap, const void* a1) { log_clause('R', id, 0, snap, a1, nullptr); point(); return {id * 8 + (snap & 7), snap}; }
std::pair<int, int>& retpr(int id, int snap, std::pair<int, int>& target, const void* a1) { log_clause('R', id, 0, snap, a1, &target); point(); return target; }
std::runtime_error thr_std(int id, int snap) { log_clause('R', id, 0, snap, nullptr, nullptr); point(); return std::runtime_error("inst " + std::to_string(id)); }
sim_error& thr_var(int id, int snap, sim_error& e) { log_clause('R', id, 0, snap, nullptr, &e); point(); return e; }
const char* thr_cstr(int id, int snap) { log_clause('R', id, 0, snap, nullptr, nullptr); point(); return "a C string"; }
int thr_int(int id, int snap) { log_clause('R', id, 0, snap, nullptr, nullptr); point(); return id; }

void ExecImpl::clause_log(char kind, int id, int k, long v, const void* a1, const void* a2) {
  long ms = (id >= 0 && static_cast<size_t>(id) < M.exps.size()) ? M.exps[static_cast<size_t>(id)].snap : 0;
  cur_obs().clauses.push_back(ClauseEv{kind, id, k, v, a1, a2, ms});
}
void ExecImpl::clause_point() { if (!ctx_stack.empty()) clause_point(*ctx_stack.back()); }

void ExecImpl::clause_point(CallCtx& c) {
  int j = c.action_idx++;
  if (c.op) {
    for (auto& n : c.op->nested) {
      if (n.first == j && !stop) {
        ++st.f_reentry; ++st.nested_ops;
        step(n.second, true);
      }
    }
    if (c.op->fault == FK_THROW && c.op->fault_at == j) {
      c.fault_fired = true;
      ++st.f_clause_throw;
      throw clause_fault{};
    }
  }
}

// ---------------- reporter / tracer call-backs ----------------
void RecTracer::trace(char const* file, unsigned long line, std::string const& call) {
  if (g_cur) { g_cur->cur_obs().traces.push_back(RawTrace{id, file ? file : "", line, call}); g_cur->on_trace(); }
}

void ExecImpl::install_reporter() {
  int gen = M.reporter_gen;
  trompeloeil::set_reporter(
      [gen](trompeloeil::severity s, char const* file, unsigned long line, std::string const& msg) {
        bool fatal = s == trompeloeil::severity::fatal;
        if (g_cur) { g_cur->cur_obs().reports.push_back(RawReport{gen, fatal, file ? file : "", line, msg}); g_cur->on_report(fatal); }
        if (fatal) throw fatal_report{};
      },
      [gen](char const* msg) {
        if (g_cur) { g_cur->cur_obs().oks.push_back(RawOk{gen, msg ? msg : ""}); g_cur->on_ok(); }
      });
}

// user code inside the library's critical section: the reporter performs an operation of its own (e.g. tears the
// fixture down on the first failure). Only on non-fatal reports (a fatal one unwinds anyway).
void ExecImpl::on_report(bool fatal) {
  if (fatal || !reporter_op || stop) return;
  const Op* op = reporter_op; reporter_op = nullptr;
  ++st.f_reentry; ++st.nested_ops;
  in_reporter_op = true;
  step(*op, true);
  in_reporter_op = false;
}

// the OK reporter is user code too: operations attached to a call at position -1 are performed by it, i.e. after the call
// has been matched and counted and before any of its actions runs (the lock is held recursively)
void ExecImpl::on_ok() {
  if (ctx_stack.empty() || stop) return;
  CallCtx& c = *ctx_stack.back();
  if (!c.op || c.ok_nested_done) return;
  c.ok_nested_done = true;
  for (auto& n : c.op->nested) {
    if (n.first == -1 && !stop) {
      ++st.f_reentry; ++st.nested_ops; ++st.p_ok_reporter_op;
      step(n.second, true);
    }
  }
}

// ... and so is a tracer: operations attached at position -2 are performed by the tracer while it receives the record of
// the call, i.e. after everything else of that call has happened (nothing may escape: it runs inside a destructor)
void ExecImpl::on_trace() {
  if (ctx_stack.empty() || stop) return;
  CallCtx& c = *ctx_stack.back();
  if (!c.op || c.trace_nested_done || !c.tracer_ops_allowed) return;
  c.trace_nested_done = true;
  for (auto& n : c.op->nested) {
    if (n.first == -2 && !stop) {
      ++st.f_reentry; ++st.nested_ops; ++st.p_tracer_op;
      try { step(n.second, true); } catch (...) {}
    }
  }
}

// ---------------- construction ----------------
ExecImpl::ExecImpl(bool shadow_) : shadow(shadow_) {
  if (!shadow) {
    g_cur = this;
    t_sink = this;
    Tracked::copies = 0; Tracked::moves = 0;
    install_reporter();
  }
}
ExecImpl::~ExecImpl() {
  if (!shadow) {
    final_cleanup();
    g_cur = nullptr;
    t_sink = nullptr;
  }
}

void ExecImpl::fail(const char* props, const char* oracle, const std::string& text) {
  if (has_viol) return;
  has_viol = true; stop = true;
  viol.props = props;
  if (ctx_moved_mock && viol.props.find("C14") == std::string::npos) viol.props += ",C14";
  if (ctx_rejected_call && viol.props.find("C01") == std::string::npos) viol.props += ",C01";
  viol.oracle = oracle; viol.text = text; viol.op_index = cur_op_index;
}

void ExecImpl::note(const std::string& s) {
  hash = fnv1a(hash, s.data(), s.size());
  hash = fnv1a(hash, "\n", 1);
  if (globals().verbose && !shadow) std::fprintf(stderr, "  | %s\n", s.c_str());
}

void ExecImpl::run(const Plan& p) {
  if (p.tasks.empty()) return;
  const auto& ops = p.tasks[0];
  size_t i = 0;
  while (i < ops.size() && !stop) i = run_range(ops, i, 0);
  if (!stop && !shadow) bury_moved_from_seqs();
}

// Executes ops[i..] until the end, or until the end_scope that closes this nesting level (consumed). A scoped
// expectation is a local variable of a real C++ frame: the operations up to its end_scope run inside that frame.
size_t ExecImpl::run_range(const std::vector<Op>& ops, size_t i, int level) {
  while (i < ops.size() && !stop) {
    const Op& op = ops[i];
    cur_op_index = static_cast<int>(i);
    if (op.kind == OP_END_SCOPE) { if (!shadow) ++st.ops[op.kind]; if (level > 0) return i + 1; ++i; continue; }
    if (!shadow && op.kind == OP_UNWIND && level > 0) {
      // the "test" aborts: an exception propagates out of every open scope
      ++st.ops[op.kind]; ++st.f_abandon;
      note("op unwind (exception leaves " + std::to_string(level) + " scope(s))"); fp += 'U';
      unwind_resume = i + 1;
      throw scope_abort{};
    }
    if (!shadow && op.kind == OP_EXPECT && (op.a[8] & 2) && level < 8) {
      int shape = static_cast<int>(static_cast<unsigned>(op.a[0]) % static_cast<unsigned>(shape_count));
      if (shape_table[shape].sline) {
        size_t next = i + 1;
        std::function<void()> body = [&]() { next = run_range(ops, i + 1, level + 1); };
        ++depth; ++st.ops[op.kind]; g_last_op_kind = op.kind; ctx_moved_mock = false; ctx_rejected_call = false;
        { std::ostringstream os; os << "op scoped_expect"; for (int k = 0; k < OP_ARGS; ++k) os << ' ' << op.a[k]; note(os.str()); fp += 'E'; }
        --depth;   // the body's operations are top-level operations themselves
        ++open_scopes;
        try { op_expect(op, &body); }
        catch (scope_abort const&) { --open_scopes; if (level > 0) throw; next = unwind_resume; ++open_scopes; }
        --open_scopes;
        i = next;
        continue;
      }
    }
    if (!shadow && op.kind == OP_REQ_DESTRUCTION && (op.a[8] & 2) && level < 8 && !M.live_watched().empty()) {
      size_t next = i + 1;
      std::function<void()> body = [&]() { next = run_range(ops, i + 1, level + 1); };
      ++st.ops[op.kind]; g_last_op_kind = op.kind; ctx_moved_mock = false; ctx_rejected_call = false;
      { std::ostringstream os; os << "op scoped_req_destruction"; for (int k = 0; k < OP_ARGS; ++k) os << ' ' << op.a[k]; note(os.str()); fp += 'D'; }
      bool entered_scope = false;
      ++open_scopes;
      try { ++depth; --depth; op_req_destruction(op, &body); entered_scope = true; }
      catch (scope_abort const&) { --open_scopes; if (level > 0) throw; next = unwind_resume; ++open_scopes; }
      --open_scopes;
      (void)entered_scope;
      i = next;
      continue;
    }
    step(op, false);
    ++i;
  }
  return i;
}

void ExecImpl::step(const Op& op, bool nested) {
  if (stop) return;
  ++depth;
  if (depth == 1) { ctx_moved_mock = false; ctx_rejected_call = false; }
  if (!shadow) g_last_op_kind = op.kind;
  if (!nested) ++st.ops[op.kind];
  {
    std::ostringstream os;
    os << (nested ? "nested " : "op ") << op_name(op.kind);
    for (int i = 0; i < OP_ARGS; ++i) os << ' ' << op.a[i];
    note(os.str());
    fp += static_cast<char>('a' + op.kind);
  }
  switch (op.kind) {
    case OP_NEW_MOCK: op_new_mock(op); break;
    case OP_DESTROY_MOCK: op_destroy_mock(op); break;
    case OP_MOVE_MOCK: op_move_mock(op); break;
    case OP_NEW_SEQ: op_new_seq(op); break;
    case OP_MOVE_SEQ: op_move_seq(op); break;
    case OP_DESTROY_SEQ: op_destroy_seq(op); break;
    case OP_EXPECT: op_expect(op); break;
    case OP_RELEASE: op_release(op); break;
    case OP_ABANDON: op_abandon(op); break;
    case OP_CALL: op_call(op); break;
    case OP_Q_SAT: op_q_sat(op); break;
    case OP_Q_COMPLETED: op_q_completed(op); break;
    case OP_NEW_WATCHED: op_new_watched(op); break;
    case OP_DESTROY_WATCHED: op_destroy_watched(op); break;
    case OP_COPY_WATCHED: op_copy_watched(op, false); break;
    case OP_MOVECONS_WATCHED: op_copy_watched(op, true); break;
    case OP_ASSIGN_WATCHED: op_assign_watched(op); break;
    case OP_REQ_DESTRUCTION: op_req_destruction(op); break;
    case OP_RELEASE_MON: op_release_mon(op); break;
    case OP_PUSH_TRACER: if (!nested) op_push_tracer(op); break;
    case OP_POP_TRACER: if (!nested) op_pop_tracer(op); break;
    case OP_SET_REPORTER: if (!nested) op_set_reporter(op); break;
    case OP_MUTATE: op_mutate(op); break;
    case OP_WIDE: op_wide(op); break;
    case OP_END_SCOPE: op_end_scope(op); break;
    case OP_UNWIND: op_unwind(op); break;
    case OP_ASSIGN_SEQ: op_assign_seq(op); break;
    default: break;
  }
  if (!stop && !shadow && depth == 1) { observe_flags(); state_hashes.push_back(M.hash()); }
  --depth;
}

// ---------------- Stats ----------------
#define SIM_STAT_FIELDS(X) \
  X(nested_ops) X(calls_accepted) X(calls_rejected) X(f_clause_throw) X(f_fatal_unwind) X(f_reentry) X(f_owner_death) \
  X(f_abandon) X(f_unwinding_death) X(f_ctor_throw) X(f_relocate) X(f_reporter_swap) X(f_tracer_nest) X(relax_weak_call) X(relax_maybe_named) \
  X(relax_monitor_listing) X(relax_forbid_seq) X(desynced) X(p_multi_match) X(p_older_took_newer_saturated) \
  X(p_older_took_newer_blocked) X(p_cost_tie) X(p_forbid_shadows_allow) X(p_mock_died_pending) X(p_nested_call) \
  X(p_saturated_nomatch) X(p_seq_mismatch) X(p_passed_entry) X(p_release_unfulfilled) X(p_release_named) \
  X(p_moved_mock_call) X(p_seq_destroy_nonempty) X(p_monitor_ok) X(p_monitor_unexpected) X(p_monitor_still_alive) \
  X(p_monitor_seq_violation) X(p_with_rejects) X(p_lr_differs) X(p_trace_records) X(p_ok_reports) X(p_rt_inverted) \
  X(p_multi_monitor) X(p_assign_watched) X(p_seq_taken_over) X(p_watched_mock_death) X(p_ok_reporter_op) X(p_call_in_handler) X(p_call_in_unwinding) X(p_tracer_op) X(p_seq_handed_back) X(p_seq_self_assigned) X(flag_observations)

void Stats::add(const Stats& o) {
  for (int i = 0; i < OP_KIND_COUNT; ++i) ops[i] += o.ops[i];
#define X(f) f += o.f;
  SIM_STAT_FIELDS(X)
#undef X
}
std::string Stats::to_json() const {
  std::ostringstream os;
  os << "{\"ops\":{";
  bool first = true;
  for (int i = 0; i < OP_KIND_COUNT; ++i) {
    if (!ops[i]) continue;
    if (!first) os << ',';
    first = false;
    os << '"' << op_name(i) << "\":" << ops[i];
  }
  os << '}';
#define X(f) os << ",\"" #f "\":" << f;
  SIM_STAT_FIELDS(X)
#undef X
  os << '}';
  return os.str();
}

// ---------------- Exec facade ----------------
Exec::Exec(bool shadow) : p_(new ExecImpl(shadow)) {}
Exec::~Exec() = default;
void Exec::run(const Plan& p) { p_->run(p); }
void Exec::step_shadow(const Op& op) { p_->step(op, false); }
const Model& Exec::model() const { return p_->M; }
bool Exec::failed() const { return p_->has_viol; }
const Violation& Exec::violation() const { return p_->viol; }
Stats& Exec::stats() { return p_->st; }
const std::vector<uint64_t>& Exec::state_hashes() const { return p_->state_hashes; }
uint64_t Exec::log_hash() const { return p_->hash; }
std::string Exec::fingerprint() const { return p_->fp; }
int Exec::nontrivial_for(const char* prop) const {
  auto it = p_->nontrivial.find(prop);
  return it == p_->nontrivial.end() ? 0 : it->second;
}

}  // namespace sim
