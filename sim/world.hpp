// The user side of the simulated world: mock classes, expectation instances, clause hooks.
// Included by every generated shape translation unit and by the executor.
#pragma once
#include <trompeloeil.hpp>

#include <atomic>
#include <functional>
#include <memory>
#include <ostream>
#include <stdexcept>
#include <string>
#include <utility>
#include <vector>

#include "shape.hpp"

// a limit that is a macro, as in C APIs: WITH(...) must report the clause as written, not as expanded (C15)
#define SIM_LIMIT 3

namespace sim {

// argument type whose copies and moves are counted (C09)
struct Tracked {
  int v;
  explicit Tracked(int v_) : v(v_) { ++live; }
  Tracked(const Tracked& o) : v(o.v) { ++copies; ++live; }
  Tracked(Tracked&& o) noexcept : v(o.v) { ++moves; ++live; }
  ~Tracked() { --live; }
  static std::atomic<long> copies, moves, live;
};
// elements of a container argument: comparable with the operands of the range matchers and printed as their value
inline bool operator==(const Tracked& a, int b) { return a.v == b; }
inline bool operator==(int a, const Tracked& b) { return a == b.v; }
inline bool operator!=(const Tracked& a, int b) { return a.v != b; }
inline bool operator>=(const Tracked& a, int b) { return a.v >= b; }
inline std::ostream& operator<<(std::ostream& os, const Tracked& t) { return os << t.v; }

template <bool Movable>
struct MockT {
  static constexpr bool trompeloeil_movable_mock = Movable;
  MockT() = default;
  MockT(MockT&&) = default;
  virtual ~MockT() = default;
  MAKE_MOCK1(f, int(int));
  MAKE_MOCK2(f, int(int, int));
  MAKE_MOCK1(g, void(int));
  MAKE_MOCK1(r, int&(int&));
  MAKE_CONST_MOCK1(c, int(int));
  MAKE_MOCK1(u, int(std::unique_ptr<Tracked>));
  MAKE_MOCK1(s, std::string(std::string&));
  MAKE_CONST_MOCK1(k, const int&(const int&));
  MAKE_MOCK0(z, void());
  MAKE_MOCK1(v, void(const std::vector<Tracked>&));
  MAKE_MOCK1(p, (std::pair<int, int>(int)));
  MAKE_CONST_MOCK1(f, int(int));   // const overload of f(int): expectations on it are placed through a const reference
};

using EP = std::unique_ptr<trompeloeil::expectation>;

// a user-defined exception type with a real move constructor (libstdc++'s own exception types copy when moved)
struct sim_error { std::string text; };

// run-time holes of a shape. Plain clauses copy it at creation, LR_ clauses see it live.
struct Inst {
  int id = 0;
  int v[3] = {0, 0, 0};
  std::size_t lo = 1, hi = 1;
  int snap = 0;
  int* cell = nullptr;
  std::string str;   // a local of class type named in LR_RETURN (short: no allocation)
  sim_error exc;                  // a local exception object named in LR_THROW: thrown as a copy, on every call
  std::pair<int, int> pr{0, 0};   // a local that the library prints element-wise (trace records)
  trompeloeil::sequence* s[3] = {nullptr, nullptr, nullptr};
};

using MakeFn = EP (*)(void*, Inst&);
template <class M, EP (*F)(M&, Inst&)>
EP maker(void* m, Inst& x) { return F(*static_cast<M*>(m), x); }

// scoped variant: the expectation is a local of the callee and lives exactly as long as the continuation runs
using ScopedFn = void (*)(void*, Inst&, std::function<void()>&);
template <class M, void (*F)(M&, Inst&, std::function<void()>&)>
void smaker(void* m, Inst& x, std::function<void()>& k) { F(*static_cast<M*>(m), x, k); }

struct ShapeReg {
  ShapeReg(int id, const char* file, MakeFn a, MakeFn m, ScopedFn sa, ScopedFn sm);
};
struct ShapeFns { const char* file; MakeFn make[2]; ScopedFn scoped[2]; };
const ShapeFns& shape_fns(int id);

template <class... T> inline void ignore(T const&...) {}
template <class M> inline const M& cm(M& m) { return m; }

// where the clause hooks deliver to: the Mode H executor, or a Mode T task
struct ClauseSink {
  virtual void clause_log(char kind, int id, int k, long v, const void* a1, const void* a2) = 0;
  virtual void clause_point() = 0;
  virtual ~ClauseSink() = default;
};
extern thread_local ClauseSink* t_sink;

// ---- clause hooks (defined in exec_a.cpp): log, yield point, fault site ----
bool w(int id, int k, bool cond);
void se(int id, int k, int snap, const void* a1, const void* a2 = nullptr);
int ret(int id, int snap, const void* a1, const void* a2 = nullptr);
int& retref(int id, int snap, int& target, const void* a1);
std::string rets(int id, int snap, const void* a1);
std::string& retsr(int id, int snap, std::string& target, const void* a1);
std::pair<int, int> retp(int id, int snap, const void* a1);
std::pair<int, int>& retpr(int id, int snap, std::pair<int, int>& target, const void* a1);   // an lvalue of the return type: must be copied, not moved from
const int& retcref(int id, int snap, const int& target, const void* a1);
std::runtime_error thr_std(int id, int snap);
sim_error& thr_var(int id, int snap, sim_error& e);
const char* thr_cstr(int id, int snap);
int thr_int(int id, int snap);

inline int val(int x) { return x; }
inline int val(const std::unique_ptr<Tracked>& p) { return p ? p->v : -1; }
int val(const std::string& s);
inline int val(const std::vector<Tracked>& v) { return v.empty() ? -1 : v.front().v; }
inline int val(trompeloeil::illegal_argument const&) { return 0; }

// a plain clause uses its captured copy of a local in a non-const way (std::move(local)): the copy is const inside the
// clause, so this must still copy, and every call must find the value of creation time there. Returns the snapshot value the
// hooks log, or -999 when the captured copy no longer holds what it held when the expectation was created.
template <class S> inline int snapm(int snap, int id, S&& s) { std::string taken(std::forward<S>(s)); return taken == std::to_string(1000 + id) ? snap : -999; }

template <class T> inline const void* ad(const T& t) { return &t; }
inline const void* ad(const std::unique_ptr<Tracked>& p) { return p.get(); }

}  // namespace sim
