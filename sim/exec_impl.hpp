// ExecImpl: shared declaration for the exec_*.cpp translation units.
#pragma once
#include <functional>
#include <set>
#include <sstream>

#include "exec.hpp"
#include "world.hpp"

namespace sim {

int max_watched();

struct Plain {
  int v;
  explicit Plain(int v_ = 0) : v(v_) {}
  Plain(const Plain&) = default;
  Plain(Plain&&) = default;
  Plain& operator=(const Plain&) = default;
  Plain& operator=(Plain&&) = default;
  virtual ~Plain() = default;
};

// expected report
struct XRep {
  int kind = RK_UNKNOWN;
  bool fatal = false;
  int exp = -1, mon = -1;
  int seqidx = -1;                 // monitor sequence mismatch: which of the monitor's sequences
  int fn = 0;
  int args[2] = {0, 0};
  std::vector<int> sat_list;       // no-match: saturated expectations that accept the call
  std::vector<int> tried;          // no-match: attached expectations newest first
  std::vector<MEntry> entries;     // sequence listing
  std::vector<int> seq_candidates; // sequence mismatch: sequences (ids) the report may name
  bool optional = false;           // 0 or 1 occurrence accepted
  bool any_of_m = false;           // sequence mismatch may blame any ineligible member of m_set
  std::vector<int> m_set;
};

struct CallCtx {
  const Op* op = nullptr;
  Obs* obs = nullptr;
  int action_idx = 0;
  bool fault_fired = false;
  bool ok_nested_done = false;
  bool tracer_ops_allowed = false;  // only for calls the model accepts: a rejected call is checked against the state it met
  bool trace_nested_done = false;   // likewise for position -2 (performed by the tracer)   // the operations attached at position -1 (performed by the OK reporter) have run
};

struct scope_abort {};
// Runs f from a destructor while an exception is propagating (std::uncaught_exceptions() > 0): what happens to an object
// that is destroyed by stack unwinding. f must not throw (the reports it may cause are non-fatal ones).
struct unwind_probe {};
template <class F> inline void run_during_unwinding(bool unwinding, F&& f) {
  if (!unwinding) { f(); return; }
  try { struct G { F& f; ~G() { f(); } } g{f}; throw unwind_probe{}; } catch (unwind_probe const&) {}
}   // thrown by the 'unwind' operation through the frames that own scoped expectations
struct RecTracer;
struct StreamRec;

class ExecImpl : public ClauseSink {
 public:
  explicit ExecImpl(bool shadow_);
  ~ExecImpl();

  bool shadow;
  Model M;
  Stats st;
  Violation viol;
  bool has_viol = false;
  bool stop = false;       // stop stepping (violation or desync)
  int cur_op_index = -1;
  bool ctx_rejected_call = false;  // the current top-level operation is a call the model rejects: nothing may change (C01)
  bool ctx_moved_mock = false;  // the current operation touches a mock that was created by a move (C14 co-owns what goes wrong there)
  int depth = 0;
  uint64_t hash = 0xcbf29ce484222325ULL;
  std::string fp;
  std::map<std::string, int> nontrivial;
  std::vector<uint64_t> state_hashes;   // model state after every top-level step (distinct-states measure)

  // ---- recording ----
  Obs base_obs;
  std::vector<Obs*> obs_stack;
  std::vector<CallCtx*> ctx_stack;
  Obs& cur_obs() { return obs_stack.empty() ? base_obs : *obs_stack.back(); }

  // ---- real world (index = model id) ----
  struct RExp { std::unique_ptr<Inst> inst; std::unique_ptr<int> cell; EP ep; };
  struct RMock { int kind = 0; MockT<false>* a = nullptr; MockT<true>* m = nullptr; };
  std::vector<RExp> rexps;
  std::vector<RMock> rmocks;
  std::vector<std::unique_ptr<trompeloeil::sequence>> rseqs;
  std::vector<std::unique_ptr<trompeloeil::sequence>> moved_from_seqs;   // sources of move assignments, not yet destroyed
  void bury_moved_from_seqs();
  bool in_reporter_op = false;
  void on_ok();
  void on_trace();
  std::vector<trompeloeil::deathwatched<Plain>*> rwatched;
  std::vector<trompeloeil::deathwatched<MockT<false>>*> rwatched_mock;   // same index; set when the watched object is a mock (it is owned through rmocks)
  void watched_death_model(int wid, std::vector<XRep>& want);
  bool mock_death_model(int id, std::vector<XRep>& want);
  void destroy_watched_mock(int mock_id);
  std::vector<int> live_plain_watched() const { std::vector<int> r; for (auto& w : M.watched) if (w.alive && w.mock < 0) r.push_back(w.id); return r; }
  std::vector<EP> rmons;
  struct RTracer { int id; int kind; std::unique_ptr<RecTracer> rec; std::unique_ptr<StreamRec> str; };
  std::vector<RTracer> rtracers;
  std::set<int> busy_exps, busy_mocks;
  std::map<int, const void*> capt_addr;   // RK_CREF_CAPT: the object first returned by each expectation

  // ---- driving ----
  void run(const Plan& p);
  size_t run_range(const std::vector<Op>& ops, size_t i, int level);
  void step(const Op& op, bool nested);
  std::vector<std::pair<bool, int>> scope_stack;   // shadow stepping: scoped (is_monitor, id) in creation order
  void fail(const char* props, const char* oracle, const std::string& text);
  void note(const std::string& s);  // event log (hashed)
  void nontriv(const char* prop) { ++nontrivial[prop]; }

  // ---- ops ----
  void op_new_mock(const Op&);
  void op_destroy_mock(const Op&);
  void op_move_mock(const Op&);
  void op_new_seq(const Op&);
  void op_move_seq(const Op&);
  void op_destroy_seq(const Op&);
  void op_expect(const Op&, std::function<void()>* scope_body = nullptr);
  void op_release(const Op&);
  void release_exp(int id);
  std::vector<XRep> release_model(int id);
  void op_end_scope(const Op&);
  void op_unwind(const Op&);
  void op_assign_seq(const Op&);
  size_t unwind_resume = 0;   // where the plan continues after an exception has left all open scopes
  int open_scopes = 0;
  void op_abandon(const Op&);
  void op_call(const Op&);
  void op_q_sat(const Op&);
  void op_q_completed(const Op&);
  void op_new_watched(const Op&);
  void op_destroy_watched(const Op&);
  void op_copy_watched(const Op&, bool move);
  void op_assign_watched(const Op&);
  void op_req_destruction(const Op&, std::function<void()>* scope_body = nullptr);
  void op_release_mon(const Op&);
  void release_mon(int id);
  std::vector<XRep> release_mon_model(int id);
  void op_push_tracer(const Op&);
  void op_pop_tracer(const Op&);
  void op_set_reporter(const Op&);
  void op_mutate(const Op&);
  void op_wide(const Op&);
  void final_cleanup();

  // ---- checks ----
  void observe_flags();
  void drain_stream_tracers(Obs& o);
  // compare the reports in o with the expectation list; ordered unless multiset
  void check_reports(Obs& o, std::vector<XRep>& want, bool multiset, const char* ctx, const char* owner_props);
  bool report_matches(const PRep& p, const XRep& x, std::string& why);
  void check_no_ok(Obs& o, const char* ctx);
  std::string exp_file(const MExp& e) const;
  std::string param_text(const MExp& e, int i, bool& negated) const;
  std::string arg_text(int fn, int value) const;
  std::string describe_exp(int id) const;

  // hooks
  void clause_log(char kind, int id, int k, long v, const void* a1, const void* a2) override;
  void clause_point() override;
  void clause_point(CallCtx& c);
  void install_reporter();
  const Op* reporter_op = nullptr;   // an operation the reporter itself performs when the next non-fatal report arrives (re-entrancy fault)
  void on_report(bool fatal);
};

extern thread_local ExecImpl* g_cur;

inline int pick(const std::vector<int>& live, int a) {
  if (live.empty()) return -1;
  return live[static_cast<unsigned>(a) % live.size()];
}

struct RecTracer : trompeloeil::tracer {
  int id;
  explicit RecTracer(int id_) : id(id_) {}
  void trace(char const* file, unsigned long line, std::string const& call) override;
};
struct StreamRec {
  int id;
  std::ostringstream os;
  trompeloeil::stream_tracer t;
  explicit StreamRec(int id_) : id(id_), t(os) {}
};

// source lines of the three monitor statements (exec_d.cpp)
struct MonShape { const char* file; unsigned line; const char* text; const char* call_name; };
const MonShape& mon_shape(int nseq, bool scoped = false);

}  // namespace sim
