// Reference model (DESIGN.md 3.5, Appendix A): plain values, copyable, no trompeloeil inside.
// It states what the properties say, cross-checked against the code, never by calling the library.
#pragma once
#include <algorithm>
#include <cstdint>
#include <string>
#include <vector>

#include "rng.hpp"
#include "shape.hpp"

namespace sim {

constexpr long UNBOUNDED = -1;

struct MExp {
  int id = 0, shape = 0, mock = -1, fn = 0, actor = 0;
  int v[3] = {0, 0, 0};
  long L = 1, H = 1, n = 0;
  int snap0 = 0, snap = 0;  // value captured at creation / current value (LR_)
  bool alive = true;        // the expectation object exists
  bool attached = false;    // linked to its mock function (callable or in the saturated list)
  bool in_saturated = false;
  bool named = false;       // already named in a violation report (C04)
  bool maybe_named = false; // named only inside a sequence-mismatch text: 0 or 1 end-of-life report accepted
  bool orphan = false;      // one of its sequence objects was destroyed while it was registered
  bool mutated = false;     // the local its clauses name has been assigned to since the expectation was created
  bool scoped = false;      // created with the scoped macro form: lives exactly as long as its C++ scope
  unsigned line = 0;        // source line of the statement that created it (NAMED_ or scoped variant)
  int nseq = 0;
  int seq[3] = {-1, -1, -1};
  bool in_seq[3] = {false, false, false};
  uint64_t order = 0;
  const ShapeDesc& sd() const { return shape_table[shape]; }
  bool sat() const { return n >= L; }
  bool full() const { return H != UNBOUNDED && n == H; }
  bool forb() const { return H == 0; }
};

struct MEntry { bool is_mon; int id; };

struct MSeq {
  int id = 0;
  bool alive = true;
  bool tainted = false;
  std::vector<MEntry> list;
};

struct MMock {
  int id = 0, kind = 0;
  bool alive = true;
  int watched = -1;
  bool moved_to = false;  // created by moving another mock
  std::vector<int> active[NFN];     // newest first
  std::vector<int> saturated[NFN];  // in order of saturation
};

struct MMon {
  int id = 0, watched = -1, actor = 0;
  bool alive = true, died = false;
  bool dangling = false;  // its object forgot it or died without it knowing (known-finding territory)
  bool scoped = false;    // created with REQUIRE_DESTRUCTION (lives as long as its C++ scope), not NAMED_REQUIRE_DESTRUCTION
  int nseq = 0;
  int seq[2] = {-1, -1};
  bool in_seq[2] = {false, false};
  int shape = 0;  // index into the monitor shape table (which source line created it)
  uint64_t order = 0;
};

struct MWatched {
  int id = 0, kind = 0;
  bool alive = true;
  std::vector<int> monitors;  // live monitors the object should know of (C13: one or more)
  int mock = -1;
};

struct Model {
  std::vector<MExp> exps;
  std::vector<MSeq> seqs;
  std::vector<MMock> mocks;
  std::vector<MMon> mons;
  std::vector<MWatched> watched;
  std::vector<int> tracers;  // stack of tracer ids (kind in low bit)
  int next_tracer = 0;
  int reporter_gen = 0;   // generation of the installed violation reporter
  int ok_gen = 0;         // generation of the installed OK reporter
  uint64_t clock = 0;

  // ----- populations (ids of live objects in creation order) -----
  std::vector<int> live_mocks() const { std::vector<int> r; for (auto& m : mocks) if (m.alive) r.push_back(m.id); return r; }
  std::vector<int> live_seqs() const { std::vector<int> r; for (auto& s : seqs) if (s.alive) r.push_back(s.id); return r; }
  std::vector<int> live_exps() const { std::vector<int> r; for (auto& e : exps) if (e.alive) r.push_back(e.id); return r; }
  std::vector<int> live_mons() const { std::vector<int> r; for (auto& e : mons) if (e.alive) r.push_back(e.id); return r; }
  std::vector<int> live_watched() const { std::vector<int> r; for (auto& e : watched) if (e.alive) r.push_back(e.id); return r; }

  // ----- sequences -----
  bool entry_sat(const MEntry& en) const { return en.is_mon ? mons[en.id].died : exps[en.id].sat(); }
  bool entry_optional(const MEntry& en) const { return en.is_mon ? false : exps[en.id].L == 0; }
  // position of an entry if every entry in front is satisfied; -1 = not callable (blocked, passed or gone)
  long pos_in(int seq, bool is_mon, int id) const {
    const MSeq& s = seqs[seq];
    long p = 0;
    for (auto& en : s.list) {
      if (en.is_mon == is_mon && en.id == id) return p;
      if (!entry_sat(en)) return -1;
      ++p;
    }
    return -1;
  }
  bool listed_in(int seq, bool is_mon, int id) const {
    for (auto& en : seqs[seq].list) if (en.is_mon == is_mon && en.id == id) return true;
    return false;
  }
  // cost of an expectation: max position over its sequences, -1 = ineligible
  long cost(const MExp& e) const {
    long c = 0;
    for (int i = 0; i < e.nseq; ++i) {
      if (e.seq[i] < 0) continue;                 // orphaned from a destroyed sequence: treated as unsequenced there
      long p = e.in_seq[i] ? pos_in(e.seq[i], false, e.id) : -1;
      if (p < 0) return -1;
      c = std::max(c, p);
    }
    return c;
  }
  bool seq_completed(int seq) const {
    for (auto& en : seqs[seq].list) if (!entry_sat(en)) return false;
    return true;
  }
  void remove_entry(int seq, bool is_mon, int id) {
    auto& l = seqs[seq].list;
    for (size_t i = 0; i < l.size(); ++i)
      if (l[i].is_mon == is_mon && l[i].id == id) { l.erase(l.begin() + static_cast<long>(i)); return; }
  }
  void clear_membership(const MEntry& en, int seq) {
    if (en.is_mon) { auto& m = mons[en.id]; for (int i = 0; i < m.nseq; ++i) if (m.seq[i] == seq) m.in_seq[i] = false; }
    else { auto& e = exps[en.id]; for (int i = 0; i < e.nseq; ++i) if (e.seq[i] == seq) e.in_seq[i] = false; }
  }
  // everything in front of the entry has been passed
  void retire_until(int seq, bool is_mon, int id) {
    auto& l = seqs[seq].list;
    size_t k = 0;
    while (k < l.size() && !(l[k].is_mon == is_mon && l[k].id == id)) ++k;
    if (k == l.size()) return;
    for (size_t i = 0; i < k; ++i) clear_membership(l[i], seq);
    l.erase(l.begin(), l.begin() + static_cast<long>(k));
  }
  void leave_all_sequences(MExp& e) {
    for (int i = 0; i < e.nseq; ++i)
      if (e.in_seq[i] && e.seq[i] >= 0) { remove_entry(e.seq[i], false, e.id); e.in_seq[i] = false; }
  }
  bool any_tainted(const MExp& e) const {
    for (int i = 0; i < e.nseq; ++i) if (e.seq[i] >= 0 && seqs[e.seq[i]].tainted) return true;
    return false;
  }

  // ----- matching (mathematics, not trompeloeil) -----
  static bool matcher_accepts(const MatcherDesc& m, const int* v, int x) {
    int o = v[m.vi];
    switch (m.kind) {
      case MK_ANY: case MK_TYPEDANY: return true;
      case MK_VAL: case MK_EQ: return x == o;
      case MK_NE: case MK_NOTEQ: return x != o;
      case MK_LT: return x < o;
      case MK_LE: return x <= o;
      case MK_GT: return x > o;
      case MK_GE: return x >= o;
      case MK_ANYOF: return x == o || x == o + 2;
      // the argument is the range {x, x + 1, x}
      case MK_RINC2: case MK_RINC11: case MK_RIS: case MK_RSTART: case MK_RENDS: case MK_RENDS3: case MK_RPERM: return x == o;
      case MK_RALL: return x >= o;              // every element >= o
      case MK_RNONE: return !(o == x || o == x + 1);
      case MK_RANY: return o == x || o == x + 1;
      case MK_RNOTIS: return x != o;            // !range_is(o, o + 1, o)
    }
    return false;
  }
  static bool with_accepts(const WithDesc& w, const MExp& e, const int* args) {
    int o = e.v[w.vi];
    const int a0 = fn_desc(e.fn).arity ? args[0] : e.v[0];   // no parameters: the clause looks at the local v[0] instead
    switch (w.kind) {
      case WK_LE: return a0 <= o;
      case WK_GE: return a0 >= o;
      case WK_NE: return a0 != o;
      case WK_EQ: return a0 == o;
      case WK_LT12: return args[0] < args[1];
      case WK_NESNAP: return a0 != (w.lr ? e.snap : e.snap0);
      case WK_LTMAC: return a0 < 3;   // SIM_LIMIT
    }
    return false;
  }
  static bool params_accept(const MExp& e, const int* args) {
    const ShapeDesc& d = e.sd();
    int ar = fn_desc(d.fn).arity;
    for (int i = 0; i < ar; ++i) if (!matcher_accepts(d.m[i], e.v, args[i])) return false;
    return true;
  }
  // index of the first failing WITH, -1 if all hold
  static int first_failing_with(const MExp& e, const int* args) {
    const ShapeDesc& d = e.sd();
    for (int k = 0; k < d.nwith; ++k) if (!with_accepts(d.w[k], e, args)) return k;
    return -1;
  }
  static bool accepts(const MExp& e, const int* args) { return params_accept(e, args) && first_failing_with(e, args) < 0; }

  uint64_t hash() const {
    uint64_t h = 0xcbf29ce484222325ULL;
    auto mix = [&](long x) { h = fnv1a(h, &x, sizeof x); };
    for (auto& e : exps) { mix(e.id); mix(e.n); mix(e.alive); mix(e.attached); mix(e.in_saturated); mix(e.named); mix(e.in_seq[0]); mix(e.in_seq[1]); mix(e.in_seq[2]); mix(e.snap); }
    for (auto& s : seqs) { mix(s.alive); mix(s.tainted); for (auto& en : s.list) { mix(en.is_mon); mix(en.id); } mix(-7); }
    for (auto& m : mocks) { mix(m.alive); for (int f = 0; f < NFN; ++f) { for (int x : m.active[f]) mix(x); mix(-3); for (int x : m.saturated[f]) mix(x); mix(-4); } }
    for (auto& m : mons) { mix(m.alive); mix(m.died); mix(m.in_seq[0]); mix(m.in_seq[1]); }
    for (auto& w : watched) { mix(w.alive); for (int x : w.monitors) mix(x); mix(-5); }
    for (int t : tracers) mix(t);
    mix(reporter_gen); mix(ok_gen);
    return h;
  }
};

}  // namespace sim
