// Linked instead of the generated wide.cpp when that file does not compile against the current headers
// (then C09's check reports the compile failure) and in the Mode T binaries, which never run the wide operation.
#include "wide.hpp"
namespace sim {
const int wide_case_count = 0;
void wide_run(int, WideRun&, int) {}
}
