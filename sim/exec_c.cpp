// The mock call: selection in the model, the real call with clause points, and the call oracles.
#include <algorithm>

#include "exec_impl.hpp"

#if defined(__has_feature)
#if __has_feature(address_sanitizer)
#include <sanitizer/asan_interface.h>
#define SIM_POISONED(p) (__asan_address_is_poisoned(p) != 0)
#endif
#endif
#ifndef SIM_POISONED
#define SIM_POISONED(p) false
#endif

namespace sim {

namespace {
struct WPre { bool params_ok; int first_fail; int nwith; };

template <class MockType>
void do_call(MockType& m, int fn, int a0, int a1, Obs& o, int& argcell, std::string& strarg, const Tracked*& tracked, std::vector<Tracked>& vecarg) {
  switch (fn) {
    case FN_F1: o.value = m.f(a0); o.outcome = OC_RET_INT; break;
    case FN_F2: o.value = m.f(a0, a1); o.outcome = OC_RET_INT; break;
    case FN_G: m.g(a0); o.outcome = OC_RET_VOID; break;
    case FN_R: { argcell = a0; int& r = m.r(argcell); o.refaddr = &r; o.value = r; o.outcome = OC_RET_REF; break; }
    case FN_C: { const MockType& cm = m; o.value = cm.c(a0); o.outcome = OC_RET_INT; break; }
    case FN_U: { std::unique_ptr<Tracked> p(new Tracked(a0)); tracked = p.get(); o.value = m.u(std::move(p)); o.outcome = OC_RET_INT; break; }
    case FN_S: { strarg = std::to_string(a0); o.sval = m.s(strarg); o.outcome = OC_RET_STR; break; }
    case FN_K: { argcell = a0; const MockType& cm = m; const int& r = cm.k(argcell); o.refaddr = &r; o.outcome = OC_RET_REF; break; }  // value read later, only through an address we trust
    case FN_Z: m.z(); o.outcome = OC_RET_VOID; break;
    case FN_V: { vecarg.clear(); vecarg.reserve(3); vecarg.emplace_back(a0); vecarg.emplace_back(a0 + 1); vecarg.emplace_back(a0); m.v(vecarg); o.outcome = OC_RET_VOID; break; }   // (built in place: no copy of an element is ours)
    case FN_CF: { const MockType& cm = m; o.value = cm.f(a0); o.outcome = OC_RET_INT; break; }   // the const overload of f(int)
    case FN_P: { auto pr = m.p(a0); o.sval = "{ " + std::to_string(pr.first) + ", " + std::to_string(pr.second) + " }"; o.outcome = OC_RET_STR; break; }   // as the library prints a pair
    default: break;
  }
}
}  // namespace

std::string ExecImpl::arg_text(int fn, int value) const {
  char k = fn_desc(fn).argk;
  if (k == 'u') return " == <object>";
  if (k == 'v') return " == { " + std::to_string(value) + ", " + std::to_string(value + 1) + ", " + std::to_string(value) + " }";
  return " == " + std::to_string(value);
}

std::string ExecImpl::param_text(const MExp& e, int i, bool& negated) const {
  const ShapeDesc& d = e.sd();
  const MatcherDesc& m = d.m[i];
  char k = fn_desc(d.fn).argk;
  std::string v = std::to_string(e.v[m.vi]);
  negated = false;
  switch (m.kind) {
    case MK_ANY: return " matching _";
    case MK_TYPEDANY:
      return std::string(" matching ANY(") + (k == 'i' ? "int" : k == 'r' ? "int&" : k == 'c' ? "const int&" : k == 's' ? "std::string&" : k == 'v' ? "const std::vector<sim::Tracked>&" : "std::unique_ptr<sim::Tracked>") + ")";
    case MK_VAL: case MK_EQ: return " == " + v;
    case MK_NE: return " != " + v;
    case MK_LT: return " < " + v;
    case MK_LE: return " <= " + v;
    case MK_GT: return " > " + v;
    case MK_GE: return " >= " + v;
    case MK_NOTEQ: negated = true; return " == " + v;
    case MK_ANYOF: return " to be any of { " + v + ", " + std::to_string(e.v[m.vi] + 2) + " }";
    case MK_RINC2: return " range has {" + v + ", " + v + " }";
    case MK_RINC11: return " range has {" + v + ", " + std::to_string(e.v[m.vi] + 1) + " }";
    case MK_RIS: return " range is {" + v + ", " + std::to_string(e.v[m.vi] + 1) + ", " + v + " }";
    case MK_RSTART: return " range starts with {" + v + " }";
    case MK_RENDS: return " range ends with {" + std::to_string(e.v[m.vi] + 1) + ", " + v + " }";
    case MK_RENDS3: return " range ends with {" + v + ", " + std::to_string(e.v[m.vi] + 1) + ", " + v + " }";
    case MK_RPERM: return " range is permutation of {" + std::to_string(e.v[m.vi] + 1) + ", " + v + ", " + v + " }";
    case MK_RALL: return " range is all >= " + v;
    case MK_RNONE: return " range is none == " + v;
    case MK_RANY: return " range is any == " + v;
    case MK_RNOTIS: negated = true; return " range is {" + v + ", " + std::to_string(e.v[m.vi] + 1) + ", " + v + " }";
  }
  return "?";
}

void ExecImpl::op_call(const Op& op) {
  int mock = pick(M.live_mocks(), op.a[0]);
  if (mock < 0) return;
  const int fn = ((op.a[1] % NFN) + NFN) % NFN;
  const int args[2] = {op.a[2], op.a[3]};
  const FnDesc& fd = fn_desc(fn);
  if (depth > 1) ++st.p_nested_call;
  if (M.mocks[static_cast<size_t>(mock)].moved_to) { ++st.p_moved_mock_call; ctx_moved_mock = true; nontriv("C14"); }
  nontriv("C01"); nontriv("C16");

  // ---------- model: who is the designated candidate ----------
  std::vector<int> active = M.mocks[mock].active[fn];
  std::vector<int> saturated = M.mocks[mock].saturated[fn];
  std::map<int, WPre> wpre;
  for (int pass = 0; pass < 2; ++pass)
    for (int id : (pass ? saturated : active)) {
      const MExp& e = M.exps[id];
      wpre[id] = WPre{Model::params_accept(e, args), Model::first_failing_with(e, args), e.sd().nwith};
      if (wpre[id].params_ok && wpre[id].first_fail >= 0) ++st.p_with_rejects;
    }
  std::vector<int> mset;
  bool weak = false, any_forb = false, any_seq = false;
  for (int id : active) {
    const MExp& e = M.exps[id];
    if (e.forb()) any_forb = true;
    if (Model::accepts(e, args)) {
      mset.push_back(id);
      if (e.orphan || M.any_tainted(e)) weak = true;
      if (e.nseq) any_seq = true;
    }
  }
  int cand = -1; long best = -1;
  for (int id : mset) {
    long c = M.cost(M.exps[id]);
    if (c == 0) { cand = id; best = 0; break; }
    if (c > 0 && (best < 0 || c < best)) { cand = id; best = c; }
  }
  if (mset.size() >= 2) { ++st.p_multi_match; nontriv("C02"); }
  if (any_forb) nontriv("C07");
  if (any_seq) nontriv("C05");
  if (!saturated.empty()) nontriv("C03");
  if (!M.tracers.empty()) nontriv("C17");
  enum Cat { NOMATCH, FORBIDDEN, SEQ, ACCEPT } cat;
  if (mset.empty()) cat = NOMATCH;
  else if (cand < 0) cat = SEQ;
  else if (M.exps[cand].forb()) cat = FORBIDDEN;
  else cat = ACCEPT;

  if (cat == ACCEPT) {
    for (int id : mset) {
      if (id == cand) break;
      long c = M.cost(M.exps[id]);
      if (c < 0 || c > best) { ++st.p_older_took_newer_blocked; break; }
    }
    for (int id : mset) if (id != cand && best > 0 && M.cost(M.exps[id]) == best) { ++st.p_cost_tie; break; }
    for (int id : saturated) if (wpre[id].params_ok && wpre[id].first_fail < 0 && M.exps[id].order > M.exps[cand].order) { ++st.p_older_took_newer_saturated; break; }
  }
  if (cat == FORBIDDEN && mset.size() >= 2) ++st.p_forbid_shadows_allow;

  // ---------- expected ----------
  std::vector<XRep> want;
  struct Act { char kind; int k; };
  std::vector<Act> acts;
  bool expect_fault = false;
  if (weak) {
    ++st.relax_weak_call;
  } else if (cat == NOMATCH) {
    XRep x; x.kind = RK_NOMATCH; x.fatal = true; x.fn = fn; x.args[0] = args[0]; x.args[1] = args[1];
    for (int id : saturated) if (wpre[id].params_ok && wpre[id].first_fail < 0) x.sat_list.push_back(id);
    if (x.sat_list.empty()) { x.tried = active; for (int id : active) M.exps[id].named = true; }
    else { ++st.p_saturated_nomatch; }
    want.push_back(x);
  } else if (cat == FORBIDDEN) {
    XRep x; x.kind = RK_FORBIDDEN; x.fatal = true; x.exp = cand; x.fn = fn; x.args[0] = args[0]; x.args[1] = args[1];
    want.push_back(x);
    M.exps[cand].named = true;
  } else if (cat == SEQ) {
    XRep x; x.kind = RK_SEQMISMATCH; x.fatal = true; x.any_of_m = true; x.m_set = mset; x.fn = fn; x.args[0] = args[0]; x.args[1] = args[1];
    want.push_back(x);
    for (int id : mset) M.exps[id].maybe_named = true;
    ++st.p_seq_mismatch;
  } else {
    MExp& e = M.exps[cand];
    e.n++;
    for (int i = 0; i < e.nseq; ++i)
      if (e.in_seq[i] && e.seq[i] >= 0) {
        if (!M.seqs[e.seq[i]].list.empty() && !(M.seqs[e.seq[i]].list[0].is_mon == false && M.seqs[e.seq[i]].list[0].id == cand)) ++st.p_passed_entry;
        M.retire_until(e.seq[i], false, cand);
      }
    if (e.full()) {
      M.leave_all_sequences(e);
      auto& al = M.mocks[mock].active[fn];
      al.erase(std::remove(al.begin(), al.end(), cand), al.end());
      M.mocks[mock].saturated[fn].push_back(cand);
      e.in_saturated = true;
    }
    const ShapeDesc& d = e.sd();
    for (int k = 0; k < d.nse; ++k) acts.push_back({'S', k});
    if (d.rk != RK_NONE) acts.push_back({'R', 0});
    if (op.fault == FK_THROW && op.fault_at >= 0 && op.fault_at < static_cast<int>(acts.size())) {
      acts.resize(static_cast<size_t>(op.fault_at) + 1);
      expect_fault = true;
    }
    if (!acts.empty() || d.nwith) nontriv("C08");
    nontriv("C09");
  }

  // ---------- shadow: walk the actions ourselves ----------
  if (shadow) {
    if (!weak && cat == ACCEPT) {
      busy_exps.insert(cand); busy_mocks.insert(mock);
      for (auto& n : op.nested) if (n.first == -1 && !stop) step(n.second, true);
      for (size_t j = 0; j < acts.size(); ++j)
        for (auto& n : op.nested) if (n.first == static_cast<int>(j) && !stop) step(n.second, true);
      if (!M.tracers.empty()) for (auto& n : op.nested) if (n.first == -2 && !stop) step(n.second, true);   // (performed by the tracer, if it is a recording one)
      busy_exps.erase(cand); busy_mocks.erase(mock);
    }
    return;
  }

  // ---------- real call ----------
  Obs o; obs_stack.push_back(&o);
  CallCtx ctx; ctx.obs = &o; ctx.op = weak ? nullptr : &op; ctx.tracer_ops_allowed = cat == ACCEPT;
  ctx_stack.push_back(&ctx);
  std::vector<int> newly_busy;
  for (int id : mset) if (busy_exps.insert(id).second) newly_busy.push_back(id);
  bool mock_newly_busy = busy_mocks.insert(mock).second;
  int argcell = 0; std::string strarg; const Tracked* tracked = nullptr; std::vector<Tracked> vecarg;
  long copies0 = Tracked::copies;
  const int top_tracer = M.tracers.empty() ? -1 : M.tracers.back();
  const int gen = M.ok_gen;
  const bool in_handler = (op.a[5] & 1) != 0;   // the call is made while an exception is being handled (from inside a catch block)
  if (in_handler) ++st.p_call_in_handler;
  // ... or from a destructor that runs while another exception propagates (std::uncaught_exceptions() > 0); whatever the
  // call throws is caught inside that destructor
  const bool in_unwinding = (op.a[5] & 2) != 0 && !in_handler;
  if (in_unwinding) ++st.p_call_in_unwinding;
  auto attempt = [&]() {
    try {
      RMock& r = rmocks[static_cast<size_t>(mock)];
      auto go = [&]() {
        if (r.kind) do_call(*r.m, fn, args[0], args[1], o, argcell, strarg, tracked, vecarg);
        else do_call(*r.a, fn, args[0], args[1], o, argcell, strarg, tracked, vecarg);
      };
      if (in_handler) { try { throw unwind_probe{}; } catch (unwind_probe const&) { go(); } }
      else go();
    }
    catch (fatal_report const&) { o.outcome = OC_THREW_FATAL; }
    catch (clause_fault const&) { o.outcome = OC_THREW_FAULT; }
    catch (std::runtime_error const& ex) { o.outcome = OC_THREW_STD; o.sval = ex.what(); }
    catch (sim_error const& ex) { o.outcome = OC_THREW_USER; o.sval = ex.text; }   // (not derived from std::exception: traced as "unknown")
    catch (std::logic_error const& ex) { o.outcome = OC_THREW_LOGIC; o.sval = ex.what(); }
    catch (int v) { o.outcome = OC_THREW_INT; o.value = v; }
    catch (char const* cs) { o.outcome = OC_THREW_USER; o.sval = cs ? cs : ""; }   // not a std::exception either
    catch (...) { o.outcome = OC_THREW_OTHER; }
  };
  run_during_unwinding(in_unwinding, attempt);
  o.tracked_copies = Tracked::copies - copies0;
  if ((fn == FN_K || fn == FN_R) && o.outcome == OC_RET_REF && o.refaddr && SIM_POISONED(o.refaddr)) {
    ctx_stack.pop_back(); obs_stack.pop_back();
    for (int id : newly_busy) busy_exps.erase(id);
    if (mock_newly_busy) busy_mocks.erase(mock);
    fail("C08,C09", "dangling_reference", "the reference returned to the caller points into memory that is already dead (returned object is not 'that very object')");
    return;
  }
  if (fn == FN_K && o.outcome == OC_RET_REF) {
    // read the referenced value only through an address the harness knows to be alive
    if (o.refaddr == &argcell) o.value = argcell;
    else for (auto& c : o.clauses) if (c.kind == 'R' && c.a2 == o.refaddr && c.inst >= 0 && static_cast<size_t>(c.inst) < rexps.size()) {
      const RExp& re = rexps[static_cast<size_t>(c.inst)];
      if (re.cell && o.refaddr == re.cell.get()) o.value = *re.cell;
      else { auto it = capt_addr.find(c.inst); if ((it != capt_addr.end() && it->second == o.refaddr) || it == capt_addr.end()) o.value = *static_cast<const int*>(o.refaddr); }
    }
  }
  ctx_stack.pop_back();
  obs_stack.pop_back();
  for (int id : newly_busy) busy_exps.erase(id);
  if (mock_newly_busy) busy_mocks.erase(mock);
  drain_stream_tracers(o);
  if (stop) return;  // a nested step already failed

  {
    std::ostringstream os;
    os << "call m" << mock << ' ' << fd.name << '/' << fd.arity << '(' << args[0] << ',' << args[1] << ") -> " << outcome_name(o.outcome)
       << ' ' << o.value << ' ' << o.sval << " reports=" << o.reports.size() << " oks=" << o.oks.size() << " clauses=";
    for (auto& c : o.clauses) os << c.kind << c.inst << '.' << c.k << '=' << c.val << ' ';
    note(os.str());
  }
  const bool real_rejected = o.outcome == OC_THREW_FATAL;
  if (real_rejected) { ++st.calls_rejected; ++st.f_fatal_unwind; } else ++st.calls_accepted;

  auto call_desc = [&]() {
    std::ostringstream os;
    os << "call of " << fd.name << "(" << args[0]; if (fd.arity == 2) os << "," << args[1];
    os << ") on mock#" << mock << "; matching live expectations (newest first):";
    for (int id : mset) os << ' ' << describe_exp(id) << " cost=" << M.cost(M.exps[id]);
    if (mset.empty()) os << " none";
    return os.str();
  };
  // a WITH clause on this function looks at a local that has been assigned to since: when the wrong expectation is chosen
  // (or none), the time at which the clause saw the local is in question as well (C09)
  bool snap_sensitive = false;
  for (int pass = 0; pass < 2; ++pass) for (int id : (pass ? saturated : active)) {
    const MExp& se = M.exps[static_cast<size_t>(id)];
    if (se.mutated) for (int k = 0; k < se.sd().nwith; ++k) if (se.sd().w[k].kind == WK_NESNAP) snap_sensitive = true;
  }
  auto kind_props = [&](const char* base) {
    std::string p = base;
    if (snap_sensitive) p += ",C09";
    if (cat == FORBIDDEN) p += ",C07";
    if (cat == FORBIDDEN && cand >= 0 && M.exps[static_cast<size_t>(cand)].sd().runtime_bounds()) p += ",C03";   // RT_TIMES(0): "handles exactly min(n, H)"
    if (cat == SEQ || (cat == ACCEPT && any_seq)) p += ",C05";
    if (cat == NOMATCH && !want.empty() && !want[0].sat_list.empty()) p += ",C03";
    for (auto& r : o.reports) {
      PRep pr = parse_report(r);
      if (pr.kind == RK_FORBIDDEN && p.find("C07") == std::string::npos) p += ",C07";
      if (pr.kind == RK_SEQMISMATCH && p.find("C05") == std::string::npos) p += ",C05";
      if (pr.kind == RK_NOMATCH && pr.saturated_listing && p.find("C03") == std::string::npos) p += ",C03";
    }
    return p;
  };

  // ---------- W events: declaration order, short circuit, values (C08, C09) ----------
  {
    std::map<int, std::vector<const ClauseEv*>> byinst;
    for (auto& c : o.clauses) if (c.kind == 'W') byinst[c.inst].push_back(&c);
    for (auto& kv : byinst) {
      auto it = wpre.find(kv.first);
      if (it == wpre.end()) { fail("C02,C08", "with_foreign", "a WITH clause of exp#" + std::to_string(kv.first) + " (not on this object/function) was evaluated during " + call_desc()); return; }
      const WPre& wp = it->second;
      // in a rejected call the evaluation may come from composing the report, which then blames the WITH instead of the parameter (C15)
      if (!wp.params_ok) { fail(real_rejected ? "C08,C15" : "C08", "with_after_param_reject", "WITH of " + describe_exp(kv.first) + " evaluated although a parameter matcher rejects the call"); return; }
      int expect_k = 0;
      for (const ClauseEv* c : kv.second) {
        if (c->k != expect_k) { fail(real_rejected ? "C08,C15" : "C08", "with_order", "WITH clauses of " + describe_exp(kv.first) + " evaluated out of declaration order / past a failing clause (saw index " + std::to_string(c->k) + ", expected " + std::to_string(expect_k) + ")"); return; }
        bool should = !(wp.first_fail == c->k);
        if ((c->val != 0) != should) { fail("C08,C09", "with_value", "WITH #" + std::to_string(c->k) + " of " + describe_exp(kv.first) + " evaluated to " + std::to_string(c->val) + " for " + call_desc()); return; }
        if (wp.first_fail == c->k || c->k == wp.nwith - 1) expect_k = 0; else expect_k = c->k + 1;
      }
    }
  }

  // ---------- weak mode (orphaned / tainted sequences): only what the properties still fix ----------
  if (weak) {
    if (real_rejected) {
      if (o.reports.size() != 1 || !o.reports[0].fatal) { fail("C01", "weak_one_fatal", "rejected call produced " + std::to_string(o.reports.size()) + " reports; " + call_desc()); return; }
      for (auto& c : o.clauses) if (c.kind != 'W') { fail("C01,C08", "weak_action_on_reject", "an action ran in a rejected call; " + call_desc()); return; }
      PRep pr = parse_report(o.reports[0]);
      if (pr.kind == RK_NOMATCH) { if (pr.saturated_listing == false) for (int id : active) M.exps[id].named = true; }
      else for (int id : mset) M.exps[id].maybe_named = true;
      if (pr.kind == RK_FORBIDDEN) for (int id : mset) if (M.exps[id].forb()) M.exps[id].named = true;
      if (!o.oks.empty()) { fail("C16", "ok_on_reject", "an OK report was sent for a rejected call; " + call_desc()); return; }
      return;
    }
    if (!o.reports.empty()) { fail("C01", "weak_report_on_accept", "accepted call also reported a violation; " + call_desc()); return; }
    int h = -1;
    for (auto& c : o.clauses) if (c.kind != 'W') { h = c.inst; break; }
    if (h < 0 && (o.outcome == OC_RET_INT)) h = static_cast<int>(o.value >> 3);
    if (h < 0 && o.outcome == OC_RET_STR) h = std::atoi(o.sval.c_str()) >> 3;
    if (h < 0) { ++st.desynced; stop = true; return; }
    if (std::find(mset.begin(), mset.end(), h) == mset.end() || M.exps[h].forb()) { fail("C01,C02", "weak_handler", "call handled by exp#" + std::to_string(h) + " which does not accept it; " + call_desc()); return; }
    for (auto& c : o.clauses) if (c.kind != 'W' && c.inst != h) { fail("C02,C08", "weak_foreign_action", "action of exp#" + std::to_string(c.inst) + " ran in a call handled by exp#" + std::to_string(h)); return; }
    MExp& e = M.exps[h];
    e.n++;
    for (int i = 0; i < e.nseq; ++i) if (e.in_seq[i] && e.seq[i] >= 0) M.retire_until(e.seq[i], false, h);
    if (e.full()) {
      M.leave_all_sequences(e);
      auto& al = M.mocks[mock].active[fn];
      al.erase(std::remove(al.begin(), al.end(), h), al.end());
      M.mocks[mock].saturated[fn].push_back(h);
      e.in_saturated = true;
    }
    return;
  }

  // ---------- strict: rejected by the model ----------
  if (cat != ACCEPT) {
    if (depth == 1) ctx_rejected_call = true;   // whatever is found changed after this step is C01's business too
    if (!real_rejected) {
      // (reported as a violation and given an OK report at the same time: that is also C16's business)
      const bool ok_and_report = !o.oks.empty();   // an OK report for a call that is not an accepted one: C16's business whatever else happened
      // (reported, but not with severity fatal, so that the reporter returned and the call went on: C15's business too)
      bool soft_report = false;
      for (auto& r : o.reports) if (!r.fatal) soft_report = true;
      fail((kind_props("C01") + (ok_and_report ? ",C16" : "") + (soft_report ? ",C15" : "")).c_str(), "accepted_but_model_rejects",
           std::string("call was accepted (") + outcome_name(o.outcome) + " " + std::to_string(o.value) + o.sval + ") but the model rejects it as " +
           (cat == NOMATCH ? "no-match" : cat == FORBIDDEN ? "forbidden" : "sequence mismatch") + "; " + call_desc());
      return;
    }
    for (auto& c : o.clauses) if (c.kind != 'W') { fail(kind_props("C01,C08").c_str(), "action_on_reject", "a SIDE_EFFECT/RETURN/THROW of exp#" + std::to_string(c.inst) + " ran in a rejected call; " + call_desc()); return; }
    // forbidding member that is sequence-ineligible: either kind of report (DESIGN 3.5)
    if (cat == SEQ && o.reports.size() == 1) {
      PRep pr = parse_report(o.reports[0]);
      if (pr.kind == RK_FORBIDDEN) {
        for (int id : mset) if (M.exps[id].forb() && pr.text == M.exps[id].sd().text && pr.tline == M.exps[id].line) { ++st.relax_forbid_seq; M.exps[id].named = true; want.clear(); XRep x; x.kind = RK_FORBIDDEN; x.fatal = true; x.exp = id; x.fn = fn; x.args[0] = args[0]; x.args[1] = args[1]; want.push_back(x); break; }
      }
    }
    check_reports(o, want, false, "call", kind_props("C01,C15").c_str());
    if (stop) return;
    if (!o.oks.empty()) { fail(cat == FORBIDDEN ? "C16,C07" : cat == SEQ ? "C16,C05" : "C16", "ok_on_reject", "an OK report ('" + o.oks[0].msg + "') was sent for a call reported as a violation; " + call_desc()); return; }
    nontriv("C15");
    return;
  }

  // ---------- strict: accepted by cand ----------
  const MExp& e = M.exps[cand];
  const ShapeDesc& d = e.sd();
  if (real_rejected) {
    std::string rep = o.reports.empty() ? "" : o.reports[0].msg;
    fail(kind_props("C01").c_str(), "rejected_but_model_accepts", "call was reported as a violation but the model says " + describe_exp(cand) + " handles it; report: " + rep + " ; " + call_desc());
    return;
  }
  if (!o.reports.empty()) { fail(kind_props("C01").c_str(), "report_on_accept", "accepted call also reported: " + o.reports[0].msg + " ; " + call_desc()); return; }
  // actions: the handler's only, once each, in order, then RETURN/THROW (C08); identity (C02); captured values (C09)
  {
    size_t j = 0;
    const void* seen_a1 = nullptr;
    for (auto& c : o.clauses) {
      if (c.kind == 'W') continue;
      if (c.inst != cand) {
        fail(snap_sensitive ? "C02,C03,C08,C09" : "C02,C03,C08", "foreign_action", std::string("clause ") + c.kind + std::to_string(c.k) + " of exp#" + std::to_string(c.inst) + " ran, but the model says " + describe_exp(cand) + " handles the call; " + call_desc());
        return;
      }
      if (j >= acts.size() || acts[j].kind != c.kind || acts[j].k != c.k) {
        std::ostringstream os; os << "actions of " << describe_exp(cand) << " ran as";
        for (auto& cc : o.clauses) if (cc.kind != 'W') os << ' ' << cc.kind << cc.k;
        os << " but declaration order requires";
        for (auto& a : acts) os << ' ' << a.kind << a.k;
        fail("C08", "action_order", os.str());
        return;
      }
      bool lr = c.kind == 'S' ? d.se_lr[c.k] : (d.rk == RK_LRVAL || d.rk == RK_LRSTR || d.rk == RK_LRSTR_VAR || d.rk == RK_LRPAIR_VAR || d.rk == RK_LRTHROW_VAR || d.rk == RK_REF_PARAM || d.rk == RK_REF_CELL || d.rk == RK_CREF_CELL);
      long wantsnap = lr ? c.msnap : e.snap0;
      if (c.val != wantsnap) {
        fail("C09", "capture_time", std::string(lr ? "LR_ " : "plain ") + "clause " + c.kind + std::to_string(c.k) + " of " + describe_exp(cand) + " saw local = " + std::to_string(c.val) + ", expected " + std::to_string(wantsnap) + " (value at creation " + std::to_string(e.snap0) + ", when the clause ran " + std::to_string(c.msnap) + ")");
        return;
      }
      if (c.kind == 'S' || (d.rk != RK_THROW_STD && d.rk != RK_THROW_INT && d.rk != RK_LRTHROW_VAR && d.rk != RK_THROW_CSTR)) {
        const void* wantaddr = (fn == FN_R || fn == FN_K) ? static_cast<const void*>(&argcell) : fn == FN_S ? static_cast<const void*>(&strarg) : fn == FN_U ? static_cast<const void*>(tracked) : fn == FN_V ? static_cast<const void*>(&vecarg) : nullptr;
        if (wantaddr && c.a1 != wantaddr) { fail("C09", "alias", std::string("_1 in clause ") + c.kind + std::to_string(c.k) + " of " + describe_exp(cand) + " does not alias the caller's argument"); return; }
        if (!wantaddr) { if (seen_a1 && c.a1 != seen_a1) { fail("C09", "alias_stable", "_1 has different addresses in different clauses of one call"); return; } seen_a1 = c.a1; }
      }
      ++j;
    }
    if (j != acts.size()) {
      std::ostringstream os; os << "only " << j << " of " << acts.size() << " actions of " << describe_exp(cand) << " ran (expected";
      for (auto& a : acts) os << ' ' << a.kind << a.k;
      os << "); outcome " << outcome_name(o.outcome) << "; " << call_desc();
      // when nothing of the handler ran but the value identifies another expectation, it is a selection problem
      fail((j == 0 && o.outcome == OC_RET_INT && (o.value >> 3) != cand) ? (snap_sensitive ? "C02,C03,C08,C09" : "C02,C03,C08") : "C08", "action_missing", os.str());
      return;
    }
  }
  if (o.tracked_copies != 0) { fail("C09", "no_copy", "the object behind a move-only argument, or an element of a container argument, was copied " + std::to_string(o.tracked_copies) + " times on its way through the call"); return; }
  // reading an argument or a local in RETURN / LR_RETURN leaves the caller's object as it was (C09)
  if (fn == FN_S && strarg != std::to_string(args[0])) { fail("C09", "argument_modified", "the caller's std::string argument is '" + strarg + "' after the call, it was '" + std::to_string(args[0]) + "'; handled by " + describe_exp(cand)); return; }
  if (d.rk == RK_LRSTR_VAR && rexps[static_cast<size_t>(cand)].inst && rexps[static_cast<size_t>(cand)].inst->str != std::to_string(1000 + cand)) {
    fail("C09", "local_modified", "the local named in LR_RETURN of " + describe_exp(cand) + " is '" + rexps[static_cast<size_t>(cand)].inst->str + "' after the call, it was '" + std::to_string(1000 + cand) + "'"); return; }
  if (d.rk == RK_LRPAIR_VAR && rexps[static_cast<size_t>(cand)].inst && rexps[static_cast<size_t>(cand)].inst->pr != std::make_pair(1000 + cand, cand)) {
    fail("C09", "local_modified", "the local named in LR_RETURN of " + describe_exp(cand) + " was changed by the call"); return; }
  if (d.rk == RK_LRTHROW_VAR && rexps[static_cast<size_t>(cand)].inst && rexps[static_cast<size_t>(cand)].inst->exc.text != "inst " + std::to_string(cand)) {
    fail("C08,C09", "local_modified", "the exception object named in LR_THROW of " + describe_exp(cand) + " holds '" + rexps[static_cast<size_t>(cand)].inst->exc.text + "' after the call: THROW must throw a copy of it"); return; }
  // outcome
  {
    int wo = OC_NONE; long wv = 0; std::string ws; const void* wa = nullptr;
    long rsnap = e.snap;
    for (auto& c : o.clauses) if (c.kind == 'R' && c.inst == cand) rsnap = c.msnap;
    int code_plain = cand * 8 + (e.snap0 & 7), code_lr = cand * 8 + static_cast<int>(rsnap & 7);
    if (expect_fault) wo = OC_THREW_FAULT;
    else switch (d.rk) {
      case RK_NONE: wo = OC_RET_VOID; break;
      case RK_VAL: wo = OC_RET_INT; wv = code_plain; break;
      case RK_LRVAL: wo = OC_RET_INT; wv = code_lr; break;
      case RK_STR: wo = OC_RET_STR; ws = std::to_string(code_plain); break;
      case RK_LRSTR: wo = OC_RET_STR; ws = std::to_string(code_lr); break;
      case RK_STR_PARAM: wo = OC_RET_STR; ws = std::to_string(args[0]); break;     // a copy of the caller's argument
      case RK_LRSTR_VAR: wo = OC_RET_STR; ws = std::to_string(1000 + cand); break;  // a copy of the local named in LR_RETURN
      case RK_PAIR: wo = OC_RET_STR; ws = "{ " + std::to_string(code_plain) + ", " + std::to_string(e.snap0) + " }"; break;
      case RK_LRPAIR_VAR: wo = OC_RET_STR; ws = "{ " + std::to_string(1000 + cand) + ", " + std::to_string(cand) + " }"; break;
      case RK_REF_PARAM: wo = OC_RET_REF; wa = &argcell; break;
      case RK_REF_CELL: case RK_CREF_CELL: wo = OC_RET_REF; wa = rexps[static_cast<size_t>(cand)].cell.get(); break;
      case RK_CREF_PARAM: wo = OC_RET_REF; wa = &argcell; break;
      case RK_CREF_CAPT: {
        // a reference to the expectation's own (captured-at-creation) copy: the same object on every call
        wo = OC_RET_REF;
        const void*& first = capt_addr[cand];
        if (!first && o.outcome == OC_RET_REF) {
          // trust it only if the RETURN clause itself saw that very object
          for (auto& c : o.clauses) if (c.kind == 'R' && c.inst == cand && c.a2 == o.refaddr) first = o.refaddr;
        }
        wa = first ? first : static_cast<const void*>(&first);  // (never equal to a returned address when unset)
        break;
      }
      case RK_THROW_STD: wo = OC_THREW_STD; ws = "inst " + std::to_string(cand); break;
      case RK_LRTHROW_VAR: wo = OC_THREW_USER; ws = "inst " + std::to_string(cand); break;
      case RK_THROW_CSTR: wo = OC_THREW_USER; ws = "a C string"; break;   // a copy of the local: the same text on every call
      case RK_THROW_INT: wo = OC_THREW_INT; wv = cand; break;
    }
    bool ok = o.outcome == wo;
    if (ok && (wo == OC_RET_INT || wo == OC_THREW_INT)) ok = o.value == wv;
    if (ok && (wo == OC_RET_STR || wo == OC_THREW_STD || wo == OC_THREW_USER)) ok = o.sval == ws;
    if (ok && wo == OC_RET_REF) ok = o.refaddr == wa;
    if (ok && wo == OC_RET_REF && d.rk == RK_CREF_CAPT && *static_cast<const int*>(o.refaddr) != e.v[0]) ok = false;
    if (!ok) {
      std::ostringstream os;
      os << "caller received " << outcome_name(o.outcome) << ' ' << o.value << ' ' << o.sval << " but " << describe_exp(cand) << " should give " << outcome_name(wo) << ' ' << wv << ' ' << ws << "; " << call_desc();
      const char* props = "C08";
      if (wo == OC_RET_REF && o.outcome == OC_RET_REF) props = "C08,C09";
      else if ((o.outcome == OC_RET_INT && (o.value >> 3) != cand)) props = "C02,C03,C08";
      else if (o.outcome == wo && (wo == OC_RET_INT || wo == OC_RET_STR)) props = "C08,C09";
      fail(props, "outcome", os.str());
      return;
    }
  }
  struct Pend { std::string props; const char* oracle; std::string text; };
  std::vector<Pend> pend;
  // OK report (C16)
  {
    const bool threw = o.outcome == OC_THREW_FAULT || o.outcome == OC_THREW_STD || o.outcome == OC_THREW_INT || o.outcome == OC_THREW_USER;
    if (o.oks.size() != 1) { pend.push_back(Pend{threw ? "C16,C08" : "C16", "ok_count", std::to_string(o.oks.size()) + " OK reports for one accepted call; " + call_desc()}); goto ok_done; }
    if (o.oks[0].gen != gen) { pend.push_back(Pend{"C16", "ok_route", "OK report delivered to reporter generation " + std::to_string(o.oks[0].gen) + ", installed is " + std::to_string(gen)}); goto ok_done; }
    if (o.oks[0].msg != d.text) { pend.push_back(Pend{"C16", "ok_text", "OK report text '" + o.oks[0].msg + "' but the call was handled by " + describe_exp(cand)}); goto ok_done; }
    ++st.p_ok_reports;
  }
ok_done:;
  // trace (C17)
  {
    if (top_tracer < 0) {
      if (!o.traces.empty()) { pend.push_back(Pend{"C17", "trace_without_tracer", "a trace record was delivered while no tracer is alive"}); goto trace_done; }
    } else {
      if (o.traces.size() != 1) { pend.push_back(Pend{"C17", "trace_count", std::to_string(o.traces.size()) + " trace records for one accepted call (innermost tracer#" + std::to_string(top_tracer) + "); " + call_desc()}); goto trace_done; }
      const RawTrace& t = o.traces[0];
      if (t.tracer != top_tracer) { pend.push_back(Pend{"C17", "trace_route", "trace record went to tracer#" + std::to_string(t.tracer) + " but the innermost live tracer is #" + std::to_string(top_tracer)}); goto trace_done; }
      std::string wantmsg = std::string(d.text) + " with.\n";
      for (int i = 0; i < fd.arity; ++i) wantmsg += "  param  _" + std::to_string(i + 1) + arg_text(fn, args[i]) + "\n";
      switch (o.outcome) {
        case OC_RET_INT: case OC_RET_REF: wantmsg += " -> " + std::to_string(o.value) + "\n"; break;
        case OC_RET_STR: wantmsg += " -> " + o.sval + "\n"; break;
        case OC_THREW_STD: wantmsg += "threw exception: what() = " + o.sval + "\n"; break;
        case OC_THREW_INT: case OC_THREW_FAULT: case OC_THREW_USER: wantmsg += "threw unknown exception\n"; break;
        default: break;
      }
      std::string got;
      for (auto& line : detail::split_lines(t.msg)) {
        PParam pp;
        if (detail::parse_param(line, "  param", pp)) got += "  param  _" + std::to_string(pp.idx) + normalise_value(pp.rest) + "\n";
        else got += line + "\n";
      }
      if (t.file != exp_file(e) || t.line != e.line || got != wantmsg) {
        fail("C17", "trace_content", "trace record [" + t.file + ":" + std::to_string(t.line) + "] '" + t.msg + "' but expected [" + exp_file(e) + ":" + std::to_string(e.line) + "] '" + wantmsg + "'");
        return;
      }
      ++st.p_trace_records;
    }
  }
trace_done:;
  // the OK report and the trace record are independent observations of the same call: whichever disagrees is reported,
  // and when both do, both owners are named
  if (!pend.empty()) {
    std::string props = pend[0].props;
    for (size_t k = 1; k < pend.size(); ++k) if (props.find(pend[k].props) == std::string::npos) props += "," + pend[k].props;
    std::string text = pend[0].text;
    for (size_t k = 1; k < pend.size(); ++k) text += " ;; also: " + pend[k].text;
    fail(props.c_str(), pend[0].oracle, text);
  }
}

}  // namespace sim
