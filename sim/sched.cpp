// Scheduler implementation. Compiled WITHOUT -fsanitize=thread/address: static arrays, raw futex syscalls,
// no libc calls that sanitizers intercept (no malloc, memcpy, std::vector) - see DESIGN.md 3.4.
#include "sched.hpp"

#include <linux/futex.h>
#include <pthread.h>
#include <sys/syscall.h>
#include <unistd.h>

extern "C" int __real_pthread_mutex_lock(pthread_mutex_t*);
extern "C" int __real_pthread_mutex_unlock(pthread_mutex_t*);

namespace {

enum { ST_RUNNABLE = 1, ST_BLOCKED = 2, ST_DONE = 3 };

int g_ntasks = 0;
volatile int g_active = 0;
int g_state[SCHED_MAX_TASKS];
void* g_blocked_on[SCHED_MAX_TASKS];
int g_stall[SCHED_MAX_TASKS];
int g_word[SCHED_MAX_TASKS];   // futex words: 1 = go
int g_ctrl_word = 0;
int g_current = -1;
int g_status = SCHED_OK;
uint64_t g_rng[4];
int g_policy = 0, g_param = 0;
int g_prio[SCHED_MAX_TASKS];
int g_change_at[8];
int g_nchange = 0;
int g_quantum_left = 0;
int g_decisions[SCHED_MAX_DECISIONS];
int g_ndec = 0;
const int* g_explicit = nullptr;
int g_nexplicit = 0;
uint64_t g_stamp = 0;
uint64_t g_hash = 0;
long g_stats[5];
uint64_t g_last_cs[SCHED_MAX_TASKS];
enum { CS_CAP = 64 };
uint64_t g_cs[SCHED_MAX_TASKS][CS_CAP];
int g_ncs[SCHED_MAX_TASKS];

struct MutexRec { void* m; int owner; int depth; };
MutexRec g_mtab[16];
int g_nm = 0;

__thread int t_self = -1;

inline long futex(int* addr, int op, int val) { return syscall(SYS_futex, addr, op, val, nullptr, nullptr, 0); }

uint64_t rotl(uint64_t x, int k) { return (x << k) | (x >> (64 - k)); }
uint64_t rnd() {
  uint64_t r = rotl(g_rng[1] * 5, 7) * 9, t = g_rng[1] << 17;
  g_rng[2] ^= g_rng[0]; g_rng[3] ^= g_rng[1]; g_rng[1] ^= g_rng[2]; g_rng[0] ^= g_rng[3]; g_rng[2] ^= t; g_rng[3] = rotl(g_rng[3], 45);
  return r;
}
void mix(uint64_t v) { for (int i = 0; i < 8; ++i) { g_hash ^= (v >> (i * 8)) & 0xff; g_hash *= 0x100000001b3ULL; } }

void wake(int* w) { __atomic_store_n(w, 1, __ATOMIC_SEQ_CST); futex(w, FUTEX_WAKE_PRIVATE, 1); }
void park(int* w) {
  while (__atomic_load_n(w, __ATOMIC_SEQ_CST) == 0) futex(w, FUTEX_WAIT_PRIVATE, 0);
  __atomic_store_n(w, 0, __ATOMIC_SEQ_CST);
}
void fatal(int status) {
  g_status = status;
  wake(&g_ctrl_word);
  for (;;) { int dummy = 0; futex(&dummy, FUTEX_WAIT_PRIVATE, 0); }  // this thread never runs again
}

// choose the next task to run; -1 if every task is done
int pick_next(int self_can_continue) {
  (void)self_can_continue;
  for (;;) {
    int cand[SCHED_MAX_TASKS], n = 0, undone = 0, stalled = 0;
    for (int i = 0; i < g_ntasks; ++i) {
      if (g_state[i] != ST_DONE) ++undone;
      if (g_state[i] == ST_RUNNABLE) { if (g_stall[i] > 0) ++stalled; else cand[n++] = i; }
    }
    if (undone == 0) return -1;
    if (n == 0) {
      if (stalled) { for (int i = 0; i < g_ntasks; ++i) if (g_stall[i] > 0) --g_stall[i]; ++g_stats[3]; continue; }
      fatal(SCHED_DEADLOCK);
    }
    if (g_ndec >= SCHED_MAX_DECISIONS) fatal(SCHED_STEP_CAP);
    for (int i = 0; i < g_ntasks; ++i) if (g_stall[i] > 0) --g_stall[i];
    int idx = 0;
    if (g_explicit) {
      idx = g_ndec < g_nexplicit ? g_explicit[g_ndec] : 0;
      if (idx < 0) idx = 0;
      idx %= n;
    } else {
      int cur_idx = -1;
      for (int i = 0; i < n; ++i) if (cand[i] == g_current) cur_idx = i;
      switch (g_policy) {
        case POL_STICKY:
          if (cur_idx >= 0 && static_cast<int>(rnd() % 100) < g_param) idx = cur_idx; else idx = static_cast<int>(rnd() % static_cast<uint64_t>(n));
          break;
        case POL_PCT: {
          for (int k = 0; k < g_nchange; ++k) if (g_change_at[k] == g_ndec && g_current >= 0) g_prio[g_current] = -g_ndec - 1;
          int best = 0;
          for (int i = 1; i < n; ++i) if (g_prio[cand[i]] > g_prio[cand[best]]) best = i;
          idx = best;
          break;
        }
        case POL_QUANTUM:
          if (cur_idx >= 0 && g_quantum_left > 0) { --g_quantum_left; idx = cur_idx; }
          else { idx = cur_idx >= 0 ? (cur_idx + 1) % n : static_cast<int>(rnd() % static_cast<uint64_t>(n)); g_quantum_left = static_cast<int>(rnd() % static_cast<uint64_t>(g_param > 0 ? g_param : 1)); }
          break;
        default:
          idx = static_cast<int>(rnd() % static_cast<uint64_t>(n));
      }
    }
    g_decisions[g_ndec++] = idx;
    ++g_stats[0];
    mix(static_cast<uint64_t>(idx)); mix(static_cast<uint64_t>(cand[idx]));
    return cand[idx];
  }
}

void switch_to(int next, int park_self) {
  int self = t_self;
  if (next == self) return;
  if (next >= 0) { if (g_current != next) ++g_stats[1]; g_current = next; wake(&g_word[next]); }
  else wake(&g_ctrl_word);
  if (park_self && self >= 0) park(&g_word[self]);
}

MutexRec* find_mutex(void* m, int add) {
  for (int i = 0; i < g_nm; ++i) if (g_mtab[i].m == m) return &g_mtab[i];
  if (!add || g_nm >= 16) return nullptr;
  g_mtab[g_nm].m = m; g_mtab[g_nm].owner = -1; g_mtab[g_nm].depth = 0;
  return &g_mtab[g_nm++];
}

}  // namespace

extern "C" {

void sched_reset(uint64_t seed, int ntasks, int policy, int policy_param) {
  g_ntasks = ntasks > SCHED_MAX_TASKS ? SCHED_MAX_TASKS : ntasks;
  g_active = 0; g_current = -1; g_status = SCHED_OK; g_ndec = 0; g_explicit = nullptr; g_nexplicit = 0;
  g_stamp = 0; g_hash = 0xcbf29ce484222325ULL; g_nm = 0; g_ctrl_word = 0; g_quantum_left = 0;
  for (int i = 0; i < 5; ++i) g_stats[i] = 0;
  uint64_t z = seed + 0x9e3779b97f4a7c15ULL;
  for (int i = 0; i < 4; ++i) { z += 0x9e3779b97f4a7c15ULL; uint64_t x = z; x = (x ^ (x >> 30)) * 0xbf58476d1ce4e5b9ULL; x = (x ^ (x >> 27)) * 0x94d049bb133111ebULL; g_rng[i] = x ^ (x >> 31); }
  g_policy = policy; g_param = policy_param;
  for (int i = 0; i < SCHED_MAX_TASKS; ++i) { g_state[i] = i < g_ntasks ? ST_RUNNABLE : ST_DONE; g_blocked_on[i] = nullptr; g_stall[i] = 0; g_word[i] = 0; g_last_cs[i] = 0; g_ncs[i] = 0; }
  for (int i = 0; i < g_ntasks; ++i) g_prio[i] = static_cast<int>(rnd() % 1000) + 1;
  g_nchange = policy == POL_PCT ? (policy_param > 8 ? 8 : policy_param) : 0;
  for (int k = 0; k < g_nchange; ++k) g_change_at[k] = static_cast<int>(rnd() % 200);
}

void sched_set_explicit(const int* decisions, int n) { g_explicit = decisions; g_nexplicit = n; }

void sched_run_all(void) {
  g_active = 1;
  int first = pick_next(0);
  if (first >= 0) { g_current = first; wake(&g_word[first]); park(&g_ctrl_word); }
  g_active = 0;
}

int sched_status(void) { return g_status; }
int sched_decisions(int* out, int cap) { int n = g_ndec < cap ? g_ndec : cap; for (int i = 0; i < n; ++i) out[i] = g_decisions[i]; return g_ndec; }
uint64_t sched_trace_hash(void) { return g_hash; }
long sched_stat(int which) { return which >= 0 && which < 5 ? g_stats[which] : 0; }

void sched_task_begin(int id) { t_self = id; park(&g_word[id]); }

void sched_task_end(void) {
  int self = t_self;
  if (self < 0) return;
  g_state[self] = ST_DONE;
  t_self = -1;
  int next = pick_next(0);
  if (next >= 0) { if (g_current != next) ++g_stats[1]; g_current = next; wake(&g_word[next]); }
  else wake(&g_ctrl_word);
}

void sched_point(int kind) {
  if (t_self < 0 || !g_active) return;
  ++g_stamp;
  mix(static_cast<uint64_t>(kind) + 1000);
  int next = pick_next(1);
  switch_to(next, 1);
}

void sched_stall(int n) {
  if (t_self < 0 || !g_active || n <= 0) return;
  g_stall[t_self] = n;
  sched_point(9);
}

int sched_self(void) { return t_self; }
uint64_t sched_stamp(void) { return ++g_stamp; }
uint64_t sched_last_cs(void) { return t_self >= 0 ? g_last_cs[t_self] : 0; }
void sched_cs_mark(void) { if (t_self >= 0) g_ncs[t_self] = 0; }
int sched_cs_since_mark(uint64_t* out, int cap) {
  if (t_self < 0) return 0;
  int n = g_ncs[t_self] < cap ? g_ncs[t_self] : cap;
  for (int i = 0; i < n; ++i) out[i] = g_cs[t_self][i];
  return g_ncs[t_self];
}

int __wrap_pthread_mutex_lock(pthread_mutex_t* m) {
  int self = t_self;
  if (self < 0 || !g_active) return __real_pthread_mutex_lock(m);
  MutexRec* r = find_mutex(m, 1);
  if (!r) return __real_pthread_mutex_lock(m);
  if (r->owner == self) {
    if ((m->__data.__kind & 3) != PTHREAD_MUTEX_RECURSIVE_NP) fatal(SCHED_SELF_DEADLOCK);
    ++r->depth;
    return __real_pthread_mutex_lock(m);
  }
  sched_point(1);
  while (r->owner != -1) {
    g_state[self] = ST_BLOCKED; g_blocked_on[self] = m; ++g_stats[2];
    ++g_stamp;
    int next = pick_next(0);
    switch_to(next, 1);
  }
  r->owner = self; r->depth = 1;
  ++g_stats[4];
  g_last_cs[self] = ++g_stamp;
  if (g_ncs[self] < CS_CAP) g_cs[self][g_ncs[self]] = g_last_cs[self];
  ++g_ncs[self];
  mix(static_cast<uint64_t>(self) + 2000);
  return __real_pthread_mutex_lock(m);
}

int __wrap_pthread_mutex_unlock(pthread_mutex_t* m) {
  int self = t_self;
  if (self < 0 || !g_active) return __real_pthread_mutex_unlock(m);
  MutexRec* r = find_mutex(m, 0);
  int rc = __real_pthread_mutex_unlock(m);
  if (r && r->owner == self) {
    if (--r->depth == 0) {
      r->owner = -1;
      for (int i = 0; i < g_ntasks; ++i) if (g_state[i] == ST_BLOCKED && g_blocked_on[i] == m) { g_state[i] = ST_RUNNABLE; g_blocked_on[i] = nullptr; }
      sched_point(2);
    }
  }
  return rc;
}
}

// ---- ThreadSanitizer report capture (only linked into the TSan build) ----
#ifdef SIM_TSAN
extern "C" {
int __tsan_get_report_data(void* report, const char** description, int* count, int* stack_count, int* mop_count, int* loc_count,
                           int* mutex_count, int* thread_count, int* unique_tid_count, void** sleep_trace, unsigned long trace_size);
int __tsan_get_report_mop(void* report, unsigned long idx, int* tid, void** addr, int* size, int* write, int* atomic, void** trace, unsigned long trace_size);
int __tsan_get_report_stack(void* report, unsigned long idx, void** trace, unsigned long trace_size);
}
namespace {
struct RaceRec { const char* desc; void* pcs[2][RACE_DEPTH]; int n[2]; };
RaceRec g_races[RACE_MAX];
int g_nraces = 0;
int g_races_total = 0;
}
extern "C" void __tsan_on_report(void* rep) {
  ++g_races_total;
  if (g_nraces >= RACE_MAX) return;
  RaceRec& r = g_races[g_nraces];
  const char* desc = ""; int count = 0, stacks = 0, mops = 0, locs = 0, mutexes = 0, threads = 0, utids = 0; void* sleep[1];
  __tsan_get_report_data(rep, &desc, &count, &stacks, &mops, &locs, &mutexes, &threads, &utids, sleep, 1);
  r.desc = desc;
  r.n[0] = r.n[1] = 0;
  for (int m = 0; m < 2; ++m) {
    for (int i = 0; i < RACE_DEPTH; ++i) r.pcs[m][i] = nullptr;
    if (m < mops) {
      int tid, size, write, atomic; void* addr;
      __tsan_get_report_mop(rep, static_cast<unsigned long>(m), &tid, &addr, &size, &write, &atomic, r.pcs[m], RACE_DEPTH);
    } else if (m < stacks) {
      __tsan_get_report_stack(rep, static_cast<unsigned long>(m), r.pcs[m], RACE_DEPTH);
    }
    while (r.n[m] < RACE_DEPTH && r.pcs[m][r.n[m]]) ++r.n[m];
  }
  ++g_nraces;
}
extern "C" {
int sched_race_count(void) { return g_nraces; }
const char* sched_race_desc(int i) { return g_races[i].desc; }
int sched_race_stack(int i, int which, void** out, int cap) { int n = g_races[i].n[which] < cap ? g_races[i].n[which] : cap; for (int k = 0; k < n; ++k) out[k] = g_races[i].pcs[which][k]; return n; }
void sched_race_clear(void) { g_nraces = 0; }
}
#else
extern "C" {
int sched_race_count(void) { return 0; }
const char* sched_race_desc(int) { return ""; }
int sched_race_stack(int, int, void**, int) { return 0; }
void sched_race_clear(void) {}
}
#endif
