// C09, the "every arity 0..15 and every passing mode" part: what one wide call exposed (filled by generated code).
#pragma once
#include <memory>

#include "world.hpp"

namespace sim {

enum WideMode { WM_VAL, WM_REF, WM_CREF, WM_RREF, WM_PTR, WM_UPTR, WM_PREF /* reference to the caller's pointer variable */ };

struct WP { const void* addr; long val; bool nc = false; /* seen as a non-const lvalue */ };
inline WP wp(const int& x) { return WP{&x, x}; }
// for int& parameters: which overload a clause selects tells whether _N is the caller's modifiable object there
inline WP wpr(int& x) { return WP{&x, x, true}; }
inline WP wpr(const int& x) { return WP{&x, x, false}; }
// for int*& parameters: _N is the caller's pointer variable itself (its address), not a copy of the pointer
inline WP wpp(int*& p) { return WP{&p, p ? *p : -1, true}; }
inline WP wpp(int* const& p) { return WP{&p, p ? *p : -1, false}; }
inline WP wp(int* const& p) { return WP{p, p ? *p : -1}; }
inline WP wp(const std::unique_ptr<Tracked>& p) { return WP{p.get(), p ? p->v : -1}; }
inline WP wp(trompeloeil::illegal_argument const&) { return WP{nullptr, -2}; }

struct WideRun {
  int n = 0;
  const char* name = "";
  int mode[16] = {};
  long want_val[16] = {};
  const void* want_addr[16] = {};
  long after[16] = {};        // the caller's variable behind a non-const reference / pointer parameter, after the call
  WP seen[3][16] = {};        // [WITH, SIDE_EFFECT, RETURN][position]
  int hits[3] = {0, 0, 0};
  long returned = 0, copies = 0;
  bool satisfied = false;
  int ident = 0;                      // > 0: a RETURN(_k) / RETURN(&_k) case, only identity is checked; -1: THROW(std::move(_k))
  const void* ret_addr = nullptr;     // what the caller received
  const void* want_ret = nullptr;     // the caller's own k-th argument
};

inline void wide_store(WideRun&, int, int) {}
template <class... T>
inline void wide_store(WideRun& R, int phase, int k, WP first, T... rest) { R.seen[phase][k] = first; wide_store(R, phase, k + 1, rest...); }
template <class... T>
inline bool wide_log(WideRun* R, int phase, T... ps) { ++R->hits[phase]; wide_store(*R, phase, 1, ps...); return true; }
template <class... T>
inline int wide_ret(WideRun* R, int phase, T... ps) { ++R->hits[phase]; wide_store(*R, phase, 1, ps...); return 4242 + R->n; }

extern const int wide_case_count;
void wide_run(int c, WideRun& R, int base);

}  // namespace sim
