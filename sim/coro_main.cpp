// simC: the coroutine world (C20), C++20. Mocked functions return coroutine types that are started eagerly or
// lazily; the scheduler decides when every returned coroutine is resumed or destroyed (late_resume), interleaved
// with further calls, expectation creation and release (DESIGN.md 6, C20).
//   simC run --seed-base N --count N [--faults 0|1] [--out DIR] [--samples K] [--no-lazy-params]
//   simC replay FILE [-v]
//   simC plan --seed N
#include <unistd.h>

#include <coroutine>
#include <cstdio>
#include <cstdlib>
#include <exception>
#include <fstream>
#include <iostream>
#include <map>
#include <memory>
#include <optional>
#include <sstream>
#include <vector>

#include <trompeloeil.hpp>

#include "plan.hpp"
#include "report.hpp"
#include "rng.hpp"

#include <sanitizer/allocator_interface.h>
#include <sanitizer/lsan_interface.h>
extern "C" __attribute__((used)) const char* __asan_default_options() {
  return "exitcode=77:detect_leaks=1:leak_check_at_exit=0:detect_stack_use_after_return=1:abort_on_error=0:print_summary=1";
}
extern "C" __attribute__((used)) const char* __ubsan_default_options() { return "halt_on_error=1:exitcode=77:print_stacktrace=1"; }

namespace simc {
using namespace sim;

struct fatal_report {};
struct clause_fault {};

// ---------------- user-side coroutine types ----------------
template <class T, bool Lazy>
struct task {
  struct promise_type {
    std::vector<T> yields;
    std::optional<T> value;
    std::exception_ptr ex;
    task get_return_object() { return task{std::coroutine_handle<promise_type>::from_promise(*this)}; }
    auto initial_suspend() noexcept { struct A { bool r; bool await_ready() const noexcept { return r; } void await_suspend(std::coroutine_handle<>) const noexcept {} void await_resume() const noexcept {} }; return A{!Lazy}; }
    std::suspend_always final_suspend() noexcept { return {}; }
    // the eager type has one yield_value, the lazy type an overload pair as std::generator and cppcoro::generator have
    std::suspend_always yield_value(T v) requires (!Lazy) { yields.push_back(v); return {}; }
    std::suspend_always yield_value(const T& v) requires Lazy { yields.push_back(v); return {}; }
    std::suspend_always yield_value(T&& v) requires Lazy { yields.push_back(std::move(v)); return {}; }
    void return_value(T v) { value = v; }
    void unhandled_exception() { ex = std::current_exception(); }
  };
  std::coroutine_handle<promise_type> h;
  explicit task(std::coroutine_handle<promise_type> h_) : h(h_) {}
  task(task&& o) noexcept : h(o.h) { o.h = nullptr; }
  task(const task&) = delete;
  ~task() { if (h) h.destroy(); }
  bool done() const { return h.done(); }
  void resume() { if (!h.done()) h.resume(); }
  bool await_ready() const { return h.done(); }
  void await_suspend(std::coroutine_handle<>) const {}
  T await_resume() { if (h.promise().ex) std::rethrow_exception(h.promise().ex); return *h.promise().value; }
};
template <bool Lazy>
struct task<void, Lazy> {
  struct promise_type {
    bool returned = false;
    std::exception_ptr ex;
    task get_return_object() { return task{std::coroutine_handle<promise_type>::from_promise(*this)}; }
    auto initial_suspend() noexcept { struct A { bool r; bool await_ready() const noexcept { return r; } void await_suspend(std::coroutine_handle<>) const noexcept {} void await_resume() const noexcept {} }; return A{!Lazy}; }
    std::suspend_always final_suspend() noexcept { return {}; }
    void return_void() { returned = true; }
    void unhandled_exception() { ex = std::current_exception(); }
  };
  std::coroutine_handle<promise_type> h;
  explicit task(std::coroutine_handle<promise_type> h_) : h(h_) {}
  task(task&& o) noexcept : h(o.h) { o.h = nullptr; }
  task(const task&) = delete;
  ~task() { if (h) h.destroy(); }
  bool done() const { return h.done(); }
  void resume() { if (!h.done()) h.resume(); }
  bool await_ready() const { return h.done(); }
  void await_suspend(std::coroutine_handle<>) const {}
  void await_resume() { if (h.promise().ex) std::rethrow_exception(h.promise().ex); }
};

enum CFN { CF_CE = 0, CF_CL = 1, CF_CL0 = 2, CF_CV = 3, CF_CR = 4, NCF = 5 };
struct MockC {
  MAKE_MOCK1(ce, (task<int, false>(int)));
  MAKE_MOCK1(cl, (task<int, true>(int)));
  MAKE_MOCK0(cl0, (task<int, true>()));
  MAKE_MOCK1(cv, (task<void, false>(int)));
  MAKE_MOCK1(cr, (task<int, true>(int&)));
};
static const char* cfn_name[NCF] = {"ce", "cl", "cl0", "cv", "cr"};
static const bool cfn_lazy[NCF] = {false, true, true, false, true};
static const int cfn_arity[NCF] = {1, 1, 0, 1, 1};

using EP = std::unique_ptr<trompeloeil::expectation>;
struct Inst { int id = 0; int v[2] = {0, 0}; std::size_t lo = 1, hi = 1; trompeloeil::sequence* s0 = nullptr; std::string tag; };
// a plain clause looks at its captured copy of a class-type local: every call handled by the expectation must find it intact
static int vtag(const std::string& tag, int id, int v) { return tag == "tag" + std::to_string(id) ? v : -999; }

// ---------------- clause hooks ----------------
struct Ev { char kind; int inst; int k; long val; };
static std::vector<Ev>* g_log = nullptr;
static int g_fault_inst = -1, g_fault_k = -2;   // clause (inst, k) that throws; k = -1 means the CO_RETURN expression
static long g_faults_fired = 0;
static void logev(char kind, int id, int k, long v) { if (g_log) g_log->push_back(Ev{kind, id, k, v}); }
static void se(int id, int k) { logev('S', id, k, 0); }
static int cy(int id, int k, int v) { logev('Y', id, k, v); if (g_fault_inst == id && g_fault_k == k) { ++g_faults_fired; throw clause_fault{}; } return v; }
static int cret(int id, int v) { logev('R', id, 0, v); if (g_fault_inst == id && g_fault_k == -1) { ++g_faults_fired; throw clause_fault{}; } return v; }
static std::runtime_error cthr(int id) { logev('T', id, 0, 0); return std::runtime_error("co " + std::to_string(id)); }
// the exception of an LR_CO_THROW is computed from the local as it is when the result is awaited
static std::runtime_error cthrv(int id, int v) { logev('T', id, 0, v); return std::runtime_error("cov " + std::to_string(v)); }

// ---------------- shapes: one statement per line ----------------
enum RetK { RT_VALUE, RT_VOID, RT_THROW, RT_PARAM };
struct CShape { int fn; int nyield; int ret; int nse; long L, H; bool seq; bool matcher_val; unsigned line; const char* text; EP (*make)(MockC&, Inst&); };
#define SHAPE_BEGIN(n) static EP cshape_##n(MockC& m, Inst& x) { (void)x; cshape_line[n] = __LINE__; return
#define SHAPE_END ; }
static unsigned cshape_line[64];
SHAPE_BEGIN(0) NAMED_REQUIRE_CALL(m, ce(trompeloeil::_)).CO_RETURN(cret(x.id, x.v[1])) SHAPE_END
SHAPE_BEGIN(1) NAMED_REQUIRE_CALL(m, ce(x.v[0])).SIDE_EFFECT(se(x.id, 0)).CO_YIELD(cy(x.id, 0, x.v[1])).CO_RETURN(cret(x.id, x.v[1] + 10)) SHAPE_END
SHAPE_BEGIN(2) NAMED_ALLOW_CALL(m, ce(trompeloeil::_)).CO_YIELD(cy(x.id, 0, x.v[1])).CO_YIELD(cy(x.id, 1, x.v[1] + 1)).CO_YIELD(cy(x.id, 2, x.v[1] + 2)).CO_RETURN(cret(x.id, vtag(x.tag, x.id, x.v[1] + 10))) SHAPE_END
SHAPE_BEGIN(3) NAMED_REQUIRE_CALL(m, ce(trompeloeil::_)).TIMES(1, 3).CO_THROW(cthr(vtag(x.tag, x.id, x.id))) SHAPE_END
SHAPE_BEGIN(4) NAMED_REQUIRE_CALL(m, ce(x.v[0])).TIMES(2).CO_YIELD(cy(x.id, 0, x.v[1])).CO_THROW(cthr(x.id)) SHAPE_END
SHAPE_BEGIN(5) NAMED_REQUIRE_CALL(m, cl(trompeloeil::_)).CO_RETURN(cret(x.id, x.v[1])) SHAPE_END
SHAPE_BEGIN(6) NAMED_REQUIRE_CALL(m, cl(x.v[0])).RT_TIMES(x.lo, x.hi).SIDE_EFFECT(se(x.id, 0)).SIDE_EFFECT(se(x.id, 1)).CO_YIELD(cy(x.id, 0, x.v[1])).CO_YIELD(cy(x.id, 1, x.v[1] + 1)).CO_RETURN(cret(x.id, x.v[1] + 10)) SHAPE_END
SHAPE_BEGIN(7) NAMED_ALLOW_CALL(m, cl(trompeloeil::_)).CO_YIELD(cy(x.id, 0, x.v[1])).CO_YIELD(cy(x.id, 1, x.v[1] + 1)).CO_YIELD(cy(x.id, 2, vtag(x.tag, x.id, x.v[1] + 2))).CO_YIELD(cy(x.id, 3, x.v[1] + 3)).CO_RETURN(cret(x.id, vtag(x.tag, x.id, x.v[1] + 10))) SHAPE_END
SHAPE_BEGIN(8) NAMED_REQUIRE_CALL(m, cl(trompeloeil::_)).TIMES(1, 2).CO_THROW(cthr(vtag(x.tag, x.id, x.id))) SHAPE_END
SHAPE_BEGIN(9) NAMED_REQUIRE_CALL(m, cl0()).CO_RETURN(cret(x.id, x.v[1])) SHAPE_END
SHAPE_BEGIN(10) NAMED_ALLOW_CALL(m, cl0()).SIDE_EFFECT(se(x.id, 0)).CO_YIELD(cy(x.id, 0, x.v[1])).CO_YIELD(cy(x.id, 1, x.v[1] + 1)).CO_RETURN(cret(x.id, vtag(x.tag, x.id, x.v[1] + 10))) SHAPE_END
SHAPE_BEGIN(11) NAMED_REQUIRE_CALL(m, cl0()).TIMES(2).CO_YIELD(cy(x.id, 0, x.v[1])).CO_THROW(cthr(x.id)) SHAPE_END
SHAPE_BEGIN(12) NAMED_REQUIRE_CALL(m, cv(trompeloeil::_)).CO_RETURN() SHAPE_END
SHAPE_BEGIN(13) NAMED_REQUIRE_CALL(m, cv(x.v[0])).TIMES(1, 2).SIDE_EFFECT(se(x.id, 0)).CO_THROW(cthr(x.id)) SHAPE_END
SHAPE_BEGIN(14) NAMED_REQUIRE_CALL(m, cr(trompeloeil::_)).CO_YIELD(cy(x.id, 0, _1)).CO_RETURN(cret(x.id, _1 + 100)) SHAPE_END
SHAPE_BEGIN(15) NAMED_ALLOW_CALL(m, cr(trompeloeil::_)).SIDE_EFFECT(se(x.id, 0)).CO_YIELD(cy(x.id, 0, x.v[1])).CO_YIELD(cy(x.id, 1, _1)).CO_RETURN(cret(x.id, x.v[1] + 10)) SHAPE_END
SHAPE_BEGIN(16) NAMED_REQUIRE_CALL(m, ce(trompeloeil::_)).IN_SEQUENCE(*x.s0).CO_RETURN(cret(x.id, x.v[1])) SHAPE_END
SHAPE_BEGIN(17) NAMED_REQUIRE_CALL(m, cl0()).IN_SEQUENCE(*x.s0).TIMES(1, 2).CO_YIELD(cy(x.id, 0, x.v[1])).CO_RETURN(cret(x.id, x.v[1] + 10)) SHAPE_END
SHAPE_BEGIN(18) NAMED_FORBID_CALL(m, ce(x.v[0])) SHAPE_END
SHAPE_BEGIN(19) NAMED_REQUIRE_CALL(m, cl(trompeloeil::_)).IN_SEQUENCE(*x.s0).CO_YIELD(cy(x.id, 0, x.v[1])).CO_RETURN(cret(x.id, x.v[1] + 10)) SHAPE_END
SHAPE_BEGIN(20) NAMED_ALLOW_CALL(m, cl0()).CO_YIELD(cy(x.id, 0, x.v[1])).CO_RETURN(cret(x.id, x.v[1] + 10)).CO_YIELD(cy(x.id, 1, x.v[1] + 1)) SHAPE_END
SHAPE_BEGIN(21) NAMED_REQUIRE_CALL(m, ce(trompeloeil::_)).TIMES(1, 3).CO_THROW(cthr(x.id)).CO_YIELD(cy(x.id, 0, x.v[1])).CO_YIELD(cy(x.id, 1, x.v[1] + 1)) SHAPE_END
SHAPE_BEGIN(22) NAMED_ALLOW_CALL(m, cl0()).LR_CO_YIELD(cy(x.id, 0, x.v[1])).CO_YIELD(cy(x.id, 1, x.v[1] + 1)).LR_CO_RETURN(cret(x.id, x.v[1] + 10)) SHAPE_END
SHAPE_BEGIN(23) NAMED_ALLOW_CALL(m, ce(trompeloeil::_)).CO_RETURN(cret(x.id, x.v[1] + 10)).CO_YIELD(cy(x.id, 0, x.v[1])).LR_CO_YIELD(cy(x.id, 1, x.v[1] + 1)).CO_YIELD(cy(x.id, 2, x.v[1] + 2)) SHAPE_END
SHAPE_BEGIN(24) NAMED_REQUIRE_CALL(m, ce(trompeloeil::_)).TIMES(1, 3).LR_CO_THROW(cthrv(x.id, x.v[1])) SHAPE_END
SHAPE_BEGIN(25) NAMED_ALLOW_CALL(m, cl0()).CO_YIELD(cy(x.id, 0, x.v[1])).LR_CO_THROW(cthrv(x.id, x.v[1])) SHAPE_END
static const CShape cshapes[] = {
  {CF_CE, 0, RT_VALUE, 0, 1, 1, false, false, 0, "m.ce(trompeloeil::_)", cshape_0},
  {CF_CE, 1, RT_VALUE, 1, 1, 1, false, true, 0, "m.ce(x.v[0])", cshape_1},
  {CF_CE, 3, RT_VALUE, 0, 0, -1, false, false, 0, "m.ce(trompeloeil::_)", cshape_2},
  {CF_CE, 0, RT_THROW, 0, 1, 3, false, false, 0, "m.ce(trompeloeil::_)", cshape_3},
  {CF_CE, 1, RT_THROW, 0, 2, 2, false, true, 0, "m.ce(x.v[0])", cshape_4},
  {CF_CL, 0, RT_VALUE, 0, 1, 1, false, false, 0, "m.cl(trompeloeil::_)", cshape_5},
  {CF_CL, 2, RT_VALUE, 2, -2, -2, false, true, 0, "m.cl(x.v[0])", cshape_6},
  {CF_CL, 4, RT_VALUE, 0, 0, -1, false, false, 0, "m.cl(trompeloeil::_)", cshape_7},
  {CF_CL, 0, RT_THROW, 0, 1, 2, false, false, 0, "m.cl(trompeloeil::_)", cshape_8},
  {CF_CL0, 0, RT_VALUE, 0, 1, 1, false, false, 0, "m.cl0()", cshape_9},
  {CF_CL0, 2, RT_VALUE, 1, 0, -1, false, false, 0, "m.cl0()", cshape_10},
  {CF_CL0, 1, RT_THROW, 0, 2, 2, false, false, 0, "m.cl0()", cshape_11},
  {CF_CV, 0, RT_VOID, 0, 1, 1, false, false, 0, "m.cv(trompeloeil::_)", cshape_12},
  {CF_CV, 0, RT_THROW, 1, 1, 2, false, true, 0, "m.cv(x.v[0])", cshape_13},
  {CF_CR, 1, RT_PARAM, 0, 1, 1, false, false, 0, "m.cr(trompeloeil::_)", cshape_14},
  {CF_CR, 2, RT_VALUE, 1, 0, -1, false, false, 0, "m.cr(trompeloeil::_)", cshape_15},
  {CF_CE, 0, RT_VALUE, 0, 1, 1, true, false, 0, "m.ce(trompeloeil::_)", cshape_16},
  {CF_CL0, 1, RT_VALUE, 0, 1, 2, true, false, 0, "m.cl0()", cshape_17},
  {CF_CE, 0, RT_VOID, 0, 0, 0, false, true, 0, "m.ce(x.v[0])", cshape_18},
  {CF_CL, 1, RT_VALUE, 0, 1, 1, true, false, 0, "m.cl(trompeloeil::_)", cshape_19},
  {CF_CL0, 2, RT_VALUE, 0, 0, -1, false, false, 0, "m.cl0()", cshape_20},
  {CF_CE, 2, RT_THROW, 0, 1, 3, false, false, 0, "m.ce(trompeloeil::_)", cshape_21},
  {CF_CL0, 2, RT_VALUE, 0, 0, -1, false, false, 0, "m.cl0()", cshape_22},
  {CF_CE, 3, RT_VALUE, 0, 0, -1, false, false, 0, "m.ce(trompeloeil::_)", cshape_23},
  {CF_CE, 0, RT_THROW, 0, 1, 3, false, false, 0, "m.ce(trompeloeil::_)", cshape_24},
  {CF_CL0, 1, RT_THROW, 0, 0, -1, false, false, 0, "m.cl0()", cshape_25},
};
// which clauses are LR_ (see the local as it is when evaluated): bit k = yield k, bit 8 = the CO_RETURN expression
static unsigned lr_mask(int shape) { return shape == 22 ? (1u | 256u) : shape == 23 ? 2u : (shape == 24 || shape == 25) ? 512u : 0u; }   // bit 9: the CO_THROW expression
static const int ncshapes = sizeof cshapes / sizeof cshapes[0];

// ---------------- model ----------------
struct MExpC { int id, shape; int v[2]; int live_v1 = 0; long L, H, n = 0; bool alive = true, attached = true, saturated = false, named = false; bool in_seq = false; int live_coros = 0; };
struct MCoro { int id, exp, fn; long ret_val = 0; std::vector<long> yvals; int pos = 0; bool done = false; bool alive = true; int arg = 0; int yielded = 0; bool started = false; };
struct ModelC {
  std::vector<MExpC> exps;
  std::vector<MCoro> coros;
  std::vector<int> active[NCF];   // newest first
  std::vector<int> saturated[NCF];
  std::vector<int> seq;           // sequence entries (exp ids) in registration order
  bool sat(const MExpC& e) const { return e.n >= e.L; }
  bool full(const MExpC& e) const { return e.H >= 0 && e.n == e.H; }
  long cost(const MExpC& e) const {
    if (!cshapes[e.shape].seq) return 0;
    if (!e.in_seq) return -1;
    long p = 0;
    for (int id : seq) { if (id == e.id) return p; if (!sat(exps[static_cast<size_t>(id)])) return -1; ++p; }
    return -1;
  }
  bool accepts(const MExpC& e, int arg) const { const CShape& d = cshapes[e.shape]; return cfn_arity[d.fn] == 0 || !d.matcher_val || e.v[0] == arg; }
};

struct Violation { std::string props, oracle, text; int op_index = -1; };

// ---------------- executor ----------------
struct CoroBox {
  int fn = 0;
  std::optional<task<int, false>> e;
  std::optional<task<int, true>> l;
  std::optional<task<void, false>> v;
  std::unique_ptr<int> refarg;   // referent of cr(int&), alive as long as the coroutine
  bool done() const { return e ? e->done() : l ? l->done() : v ? v->done() : true; }
  void resume() { if (e) e->resume(); else if (l) l->resume(); else if (v) v->resume(); }
  size_t nyields() const { return e ? e->h.promise().yields.size() : l ? l->h.promise().yields.size() : 0; }
  int yield_at(size_t i) const { return e ? e->h.promise().yields[i] : l->h.promise().yields[i]; }
};

struct Stats {
  long ops[OP_KIND_COUNT] = {};
  long calls_accepted = 0, calls_rejected = 0, resumes = 0, late_resumes = 0, interleaved_resumes = 0, destroyed_unfinished = 0, eager = 0, lazy = 0, clause_throw = 0,
       completed = 0, threw_at_await = 0, multi_call_same_exp = 0, lazy_with_param = 0, mutations = 0, referent_mutations = 0, mock_deaths = 0;
};

class ExecC {
 public:
  ModelC M;
  MockC* mock = nullptr;
  std::unique_ptr<trompeloeil::sequence> seq;
  std::vector<std::unique_ptr<Inst>> insts;
  std::vector<EP> eps;
  std::vector<std::unique_ptr<CoroBox>> boxes;
  std::vector<RawReport> reports;
  std::vector<std::string> oks;
  std::vector<Ev> log;
  Violation viol; bool failed = false; int cur = -1;
  Stats st;
  uint64_t hash = 0xcbf29ce484222325ULL;
  std::string fp;
  int last_resumed = -1;
  bool allow_lazy_params = true;
  bool verbose = false;

  ExecC() {
    mock = new MockC; seq.reset(new trompeloeil::sequence);
    g_log = &log;
    trompeloeil::set_reporter(
        [this](trompeloeil::severity s, char const* file, unsigned long line, std::string const& msg) { bool f = s == trompeloeil::severity::fatal; reports.push_back(RawReport{0, f, file ? file : "", line, msg}); if (f) throw fatal_report{}; },
        [this](char const* msg) { oks.push_back(msg ? msg : ""); });
  }
  ~ExecC() {
    reports.clear();
    try { boxes.clear(); eps.clear(); delete mock; seq.reset(); } catch (...) {}
    g_log = nullptr;
    trompeloeil::set_reporter([](trompeloeil::severity, char const*, unsigned long, std::string const&) {});
  }
  void fail(const char* oracle, const std::string& text) { if (failed) return; failed = true; viol.props = "C20"; viol.oracle = oracle; viol.text = text; viol.op_index = cur; }
  void note(const std::string& s) { hash = fnv1a(hash, s.data(), s.size()); if (verbose) std::fprintf(stderr, "  | %s\n", s.c_str()); }
  std::vector<int> live_exps() const { std::vector<int> r; for (auto& e : M.exps) if (e.alive) r.push_back(e.id); return r; }
  std::vector<int> live_coros() const { std::vector<int> r; for (auto& c : M.coros) if (c.alive) r.push_back(c.id); return r; }
  std::string desc(int id) const { const MExpC& e = M.exps[static_cast<size_t>(id)]; std::ostringstream os; os << "exp#" << id << "[shape " << e.shape << ' ' << cshapes[e.shape].text << " v=" << e.v[0] << ',' << e.v[1] << " L=" << e.L << " H=" << e.H << " n=" << e.n << "]"; return os.str(); }

  void step(const Op& op) {
    reports.clear(); oks.clear(); log.clear();
    ++st.ops[op.kind];
    { std::ostringstream os; os << op_name(op.kind); for (int i = 0; i < 6; ++i) os << ' ' << op.a[i]; note(os.str()); fp += static_cast<char>('a' + op.kind); }
    switch (op.kind) {
      case OP_EXPECT: do_expect(op); break;
      case OP_CO_CALL: do_call(op); break;
      case OP_CO_RESUME: do_resume(op); break;
      case OP_CO_DESTROY: do_destroy(op); break;
      case OP_RELEASE: do_release(op); break;
      case OP_DESTROY_MOCK: do_destroy_mock(); break;
      case OP_MUTATE: do_mutate(op); break;
      default: break;
    }
    if (!failed) observe();
  }

  void do_expect(const Op& op) {
    if (live_exps().size() >= 8) return;
    int shape = static_cast<int>(static_cast<unsigned>(op.a[0]) % static_cast<unsigned>(ncshapes));
    const CShape& d = cshapes[shape];
    if (!allow_lazy_params && d.fn == CF_CL) return;
    MExpC e; e.id = static_cast<int>(M.exps.size()); e.shape = shape; e.v[0] = op.a[2]; e.v[1] = op.a[3]; e.live_v1 = e.v[1];
    long lo = ((op.a[5] % 3) + 3) % 3, hi = lo + ((op.a[6] % 3) + 3) % 3; if (hi == 0) hi = 1;
    if (d.L == -2) { e.L = lo; e.H = hi; } else { e.L = d.L; e.H = d.H; }
    e.in_seq = d.seq;
    M.exps.push_back(e);
    if (d.seq) M.seq.push_back(e.id);
    M.active[d.fn].insert(M.active[d.fn].begin(), e.id);
    std::unique_ptr<Inst> x(new Inst); x->id = e.id; x->v[0] = e.v[0]; x->v[1] = e.v[1]; x->lo = static_cast<size_t>(lo); x->hi = static_cast<size_t>(hi); x->s0 = seq.get(); x->tag = "tag" + std::to_string(e.id);
    insts.resize(M.exps.size()); eps.resize(M.exps.size());
    eps[static_cast<size_t>(e.id)] = d.make(*mock, *x);
    insts[static_cast<size_t>(e.id)] = std::move(x);
    if (!reports.empty()) fail("expect_report", "creating an expectation reported: " + reports[0].msg);
  }

  // the mock object dies while expectations on it are alive and coroutines of earlier calls are suspended: the
  // expectations outlive it (NAMED), so those coroutines go on evaluating their clauses when they are resumed
  void do_destroy_mock() {
    int want = 0;
    for (int f = 0; f < NCF; ++f) {
      for (int pass = 0; pass < 2; ++pass) {
        auto& lst = pass ? M.saturated[f] : M.active[f];
        for (int id : lst) { MExpC& e = M.exps[static_cast<size_t>(id)]; if (!e.named && !M.sat(e)) { ++want; e.named = true; } e.attached = false; e.saturated = false; }
        lst.clear();
      }
    }
    // (their registrations in the sequence stay until the expectation objects are released, in the model as in the library)
    delete mock; mock = new MockC;
    ++st.mock_deaths;
    int got = 0; bool bad = false;
    for (auto& r : reports) { if (r.fatal || r.msg.rfind("Pending expectation on destroyed mock object", 0) != 0) bad = true; else ++got; }
    if (bad || got != want) fail("mock_death", "destroying the mock reported " + std::to_string(reports.size()) + " violations, " + std::to_string(want) + " pending expectations were expected to be named");
  }

  // the local a clause mentions changes after the expectation was written: plain clauses copied it, LR_ clauses see it
  void do_mutate(const Op& op) {
    if (op.a[2] & 1) {
      // the caller's object behind a reference parameter changes between the call and a later resume: clauses that
      // mention _1 see the object, not a copy taken at the call
      auto lc = live_coros();
      for (size_t k = 0; k < lc.size(); ++k) {
        int cid = lc[(static_cast<unsigned>(op.a[0]) + k) % lc.size()];
        CoroBox& b = *boxes[static_cast<size_t>(cid)];
        if (!b.refarg || M.coros[static_cast<size_t>(cid)].done) continue;
        *b.refarg += 100 + (op.a[1] & 7);
        M.coros[static_cast<size_t>(cid)].arg = *b.refarg;
        ++st.referent_mutations;
        return;
      }
      return;
    }
    auto live = live_exps(); if (live.empty()) return;
    int id = live[static_cast<unsigned>(op.a[0]) % live.size()];
    M.exps[static_cast<size_t>(id)].live_v1 += 100 + (op.a[1] & 7);
    insts[static_cast<size_t>(id)]->v[1] = M.exps[static_cast<size_t>(id)].live_v1;
    ++st.mutations;
  }

  void do_release(const Op& op) {
    auto live = live_exps(); if (live.empty()) return;
    int id = live[static_cast<unsigned>(op.a[0]) % live.size()];
    MExpC& e = M.exps[static_cast<size_t>(id)];
    if (e.live_coros > 0) return;   // the proviso: the expectation outlives the coroutines evaluating its clauses
    bool want = e.attached && !e.named && !M.sat(e);
    auto& lst = e.saturated ? M.saturated[cshapes[e.shape].fn] : M.active[cshapes[e.shape].fn];
    lst.erase(std::remove(lst.begin(), lst.end(), id), lst.end());
    M.seq.erase(std::remove(M.seq.begin(), M.seq.end(), id), M.seq.end());
    e.alive = false; e.attached = false;
    eps[static_cast<size_t>(id)].reset();
    bool got = reports.size() == 1 && !reports[0].fatal && reports[0].msg.rfind("Unfulfilled expectation", 0) == 0;
    if (reports.size() > 1 || got != want) fail("count_at_call_time", std::string("releasing ") + desc(id) + (want ? " should report it unfulfilled" : " must be silent") + ": the calls were not counted at call time as for ordinary functions");
  }

  // what evaluating the next clause of coroutine c logs and produces
  void expect_progress(MCoro& c, std::vector<Ev>& want, bool& finishes, bool& throws) {
    const MExpC& e = M.exps[static_cast<size_t>(c.exp)];
    const CShape& d = cshapes[e.shape];
    finishes = false; throws = false;
    if (c.pos < d.nyield) {
      int k = c.pos;
      long v = ((lr_mask(e.shape) >> k) & 1 ? e.live_v1 : e.v[1]) + k;
      if (d.fn == CF_CR && ((e.shape == 14 && k == 0) || (e.shape == 15 && k == 1))) v = c.arg;
      want.push_back(Ev{'Y', c.exp, k, v});
      c.yvals.push_back(v);
      if (g_fault_inst == c.exp && g_fault_k == k) { finishes = true; throws = true; }
      return;
    }
    finishes = true;
    if (d.ret == RT_THROW) { long tv = (lr_mask(e.shape) & 512u) ? e.live_v1 : 0; c.ret_val = tv; want.push_back(Ev{'T', c.exp, 0, tv}); throws = true; }
    else if (d.ret == RT_VOID) { /* CO_RETURN() has no expression to evaluate */ }
    else { long base = (lr_mask(e.shape) & 256u) ? e.live_v1 : e.v[1]; long v = d.ret == RT_PARAM ? c.arg + 100 : (d.nyield ? base + 10 : base); c.ret_val = v; want.push_back(Ev{'R', c.exp, 0, v}); if (g_fault_inst == c.exp && g_fault_k == -1) throws = true; }
  }

  bool same_log(const std::vector<Ev>& want, size_t from) {
    if (log.size() - from != want.size()) return false;
    for (size_t i = 0; i < want.size(); ++i) { const Ev& a = log[from + i]; const Ev& b = want[i]; if (a.kind != b.kind || a.inst != b.inst || a.k != b.k || a.val != b.val) return false; }
    return true;
  }
  std::string show_log(const std::vector<Ev>& l, size_t from = 0) { std::ostringstream os; for (size_t i = from; i < l.size(); ++i) os << l[i].kind << l[i].inst << '.' << l[i].k << '=' << l[i].val << ' '; return os.str(); }

  void do_call(const Op& op) {
    if (live_coros().size() >= 6) return;
    int fn = ((op.a[1] % NCF) + NCF) % NCF;
    if (!allow_lazy_params && fn == CF_CL) fn = CF_CL0;
    int arg = op.a[2];
    // fault: the k-th clause of the handler throws when it is evaluated (call time for eager, resume time for lazy)
    // ---- model selection (as for ordinary functions) ----
    std::vector<int> mset;
    for (int id : M.active[fn]) if (M.accepts(M.exps[static_cast<size_t>(id)], arg)) mset.push_back(id);
    int cand = -1; long best = -1;
    for (int id : mset) { long c = M.cost(M.exps[static_cast<size_t>(id)]); if (c == 0) { cand = id; best = 0; break; } if (c > 0 && (best < 0 || c < best)) { cand = id; best = c; } }
    bool accept = cand >= 0 && M.exps[static_cast<size_t>(cand)].H != 0;
    std::vector<Ev> want;
    MCoro mc; mc.id = static_cast<int>(M.coros.size()); mc.fn = fn; mc.arg = arg; mc.exp = cand;
    bool finishes = false, throws = false;
    if (accept) {
      MExpC& e = M.exps[static_cast<size_t>(cand)];
      if (e.n >= 1) ++st.multi_call_same_exp;
      e.n++;
      if (cshapes[e.shape].seq && e.in_seq) { while (!M.seq.empty() && M.seq[0] != cand) { M.exps[static_cast<size_t>(M.seq[0])].in_seq = false; M.seq.erase(M.seq.begin()); } }
      if (M.full(e)) { e.in_seq = false; M.seq.erase(std::remove(M.seq.begin(), M.seq.end(), cand), M.seq.end()); auto& al = M.active[fn]; al.erase(std::remove(al.begin(), al.end(), cand), al.end()); M.saturated[fn].push_back(cand); e.saturated = true; }
      for (int k = 0; k < cshapes[e.shape].nse; ++k) want.push_back(Ev{'S', cand, k, 0});
      if (op.fault == FK_THROW) { g_fault_inst = cand; g_fault_k = op.fault_at % (cshapes[e.shape].nyield + 1) == cshapes[e.shape].nyield ? -1 : op.fault_at % (cshapes[e.shape].nyield + 1); if (cshapes[e.shape].ret == RT_THROW && g_fault_k == -1) g_fault_k = cshapes[e.shape].nyield ? 0 : -2; if (cshapes[e.shape].ret == RT_VOID && g_fault_k == -1) g_fault_k = -2; }
      if (!cfn_lazy[fn]) { mc.started = true; expect_progress(mc, want, finishes, throws); if (!finishes) { mc.pos++; mc.yielded++; } else mc.done = true; }
      e.live_coros++;
      if (fn == CF_CL) ++st.lazy_with_param;
    } else {
      if (mset.empty()) { bool satm = false; for (int id : M.saturated[fn]) if (M.accepts(M.exps[static_cast<size_t>(id)], arg)) satm = true; if (!satm) for (int id : M.active[fn]) M.exps[static_cast<size_t>(id)].named = true; }
      else if (cand >= 0) M.exps[static_cast<size_t>(cand)].named = true;
    }
    // ---- real call ----
    std::unique_ptr<CoroBox> box(new CoroBox); box->fn = fn;
    bool rejected = false, threw_other = false;
    try {
      switch (fn) {
        case CF_CE: box->e.emplace(mock->ce(arg)); break;
        case CF_CL: box->l.emplace(mock->cl(arg)); break;
        case CF_CL0: box->l.emplace(mock->cl0()); break;
        case CF_CV: box->v.emplace(mock->cv(arg)); break;
        case CF_CR: box->refarg.reset(new int(arg)); box->l.emplace(mock->cr(*box->refarg)); break;
      }
    } catch (fatal_report const&) { rejected = true; }
    catch (...) { threw_other = true; }
    { std::ostringstream os; os << "call " << cfn_name[fn] << '(' << arg << ") -> " << (rejected ? "rejected" : threw_other ? "threw" : "coroutine") << " log " << show_log(log) << " reports " << reports.size(); note(os.str()); }
    if (threw_other) { fail("exception_at_call", std::string("the call of ") + cfn_name[fn] + " itself threw: an exception of CO_THROW or of a clause must surface where the result is awaited, not at the call"); return; }
    if (accept) {
      ++st.calls_accepted; (cfn_lazy[fn] ? st.lazy : st.eager)++;
      if (rejected) { fail("call_matching", "call of " + std::string(cfn_name[fn]) + "(" + std::to_string(arg) + ") was reported as a violation but " + desc(cand) + " should handle it: " + (reports.empty() ? "" : reports[0].msg)); return; }
      if (!reports.empty()) { fail("call_matching", "accepted coroutine call also reported: " + reports[0].msg); return; }
      if (!same_log(want, 0)) { std::vector<Ev> w = want; fail(cfn_lazy[fn] ? "lazy_start" : "eager_start", "at call time the clause log is [" + show_log(log) + "] but should be [" + show_log(w) + "] for " + desc(cand) + (cfn_lazy[fn] ? " (lazily started: only SIDE_EFFECTs run at the call)" : " (eagerly started: SIDE_EFFECTs, then the body up to its first suspension)")); return; }
      if (oks.size() != 1) { fail("call_matching", std::to_string(oks.size()) + " OK reports for an accepted coroutine call"); return; }
      if (throws) ++st.clause_throw;
      M.coros.push_back(mc);
      boxes.resize(M.coros.size()); boxes[static_cast<size_t>(mc.id)] = std::move(box);
      check_state(mc.id, "after the call");
    } else {
      ++st.calls_rejected;
      if (!rejected) { fail("call_matching", "call of " + std::string(cfn_name[fn]) + "(" + std::to_string(arg) + ") returned a coroutine but no live expectation can take it"); return; }
      if (reports.size() != 1 || !reports[0].fatal) { fail("call_matching", "rejected call with " + std::to_string(reports.size()) + " reports"); return; }
      if (!log.empty()) { fail("call_matching", "clauses ran in a rejected coroutine call: " + show_log(log)); return; }
    }
    g_fault_inst = -1; g_fault_k = -2;
  }

  // the coroutine's observable state must equal the model's: number of values yielded so far and their values, done, result
  void check_state(int cid, const char* when) {
    MCoro& c = M.coros[static_cast<size_t>(cid)];
    CoroBox& b = *boxes[static_cast<size_t>(cid)];
    const MExpC& e = M.exps[static_cast<size_t>(c.exp)];
    const CShape& d = cshapes[e.shape];
    if (b.done() != c.done) { fail("progress", std::string(when) + ": coroutine#" + std::to_string(cid) + " of " + desc(c.exp) + " is " + (b.done() ? "" : "not ") + "done, model says " + (c.done ? "done" : "suspended at clause " + std::to_string(c.pos))); return; }
    if (d.ret != RT_VOID || d.nyield) {
      if (cfn_arity[c.fn] >= 0 && (b.e || b.l)) {
        if (static_cast<int>(b.nyields()) != c.yielded) { fail("yield_order", std::string(when) + ": coroutine#" + std::to_string(cid) + " has produced " + std::to_string(b.nyields()) + " values, model says " + std::to_string(c.yielded)); return; }
        for (int k = 0; k < c.yielded; ++k) {
          long v = k < static_cast<int>(c.yvals.size()) ? c.yvals[static_cast<size_t>(k)] : e.v[1] + k;
          if (b.yield_at(static_cast<size_t>(k)) != v) { fail("yield_order", std::string(when) + ": value #" + std::to_string(k) + " produced by coroutine#" + std::to_string(cid) + " is " + std::to_string(b.yield_at(static_cast<size_t>(k))) + ", CO_YIELD clauses in declaration order give " + std::to_string(v)); return; }
        }
      }
    }
  }

  void do_resume(const Op& op) {
    auto live = live_coros(); if (live.empty()) return;
    int cid = live[static_cast<unsigned>(op.a[0]) % live.size()];
    MCoro& c = M.coros[static_cast<size_t>(cid)];
    CoroBox& b = *boxes[static_cast<size_t>(cid)];
    if (c.done) { await_result(cid); return; }
    ++st.resumes;
    if (cid != static_cast<int>(M.coros.size()) - 1) ++st.late_resumes;
    if (last_resumed >= 0 && last_resumed != cid) ++st.interleaved_resumes;
    last_resumed = cid;
    std::vector<Ev> want; bool finishes = false, throws = false;
    if (op.fault == FK_THROW && !c.started) { /* arm a fault in this coroutine's next clause */ }
    // re-arm the fault chosen at call time for lazily evaluated clauses
    if (c.fn != CF_CE && c.fn != CF_CV && op.fault == FK_THROW) { const CShape& d = cshapes[M.exps[static_cast<size_t>(c.exp)].shape]; if (c.pos < d.nyield) { g_fault_inst = c.exp; g_fault_k = c.pos; } else if (d.ret == RT_VALUE || d.ret == RT_PARAM) { g_fault_inst = c.exp; g_fault_k = -1; } }
    c.started = true;
    expect_progress(c, want, finishes, throws);
    if (!finishes) { c.pos++; c.yielded++; } else c.done = true;
    bool threw = false;
    try { b.resume(); } catch (...) { threw = true; }
    { std::ostringstream os; os << "resume coro#" << cid << " log " << show_log(log) << " done " << b.done(); note(os.str()); }
    if (threw) { fail("exception_site", "resuming coroutine#" + std::to_string(cid) + " threw out of resume(): the exception must be delivered through the coroutine's result"); return; }
    if (!reports.empty()) { fail("resume_report", "resuming a coroutine reported: " + reports[0].msg); return; }
    if (!same_log(want, 0)) { fail("yield_order", "resuming coroutine#" + std::to_string(cid) + " of " + desc(c.exp) + " evaluated [" + show_log(log) + "] but the next clause in declaration order is [" + show_log(want) + "]"); return; }
    if (throws) ++st.clause_throw;
    g_fault_inst = -1; g_fault_k = -2;
    check_state(cid, "after resume");
    if (!failed && c.done) await_result(cid);
  }

  void await_result(int cid) {
    MCoro& c = M.coros[static_cast<size_t>(cid)];
    CoroBox& b = *boxes[static_cast<size_t>(cid)];
    const MExpC& e = M.exps[static_cast<size_t>(c.exp)];
    const CShape& d = cshapes[e.shape];
    // what does the model say the result is? The last evaluated clause decides.
    bool want_throw_std = d.ret == RT_THROW && c.pos >= d.nyield;
    bool got_std = false, got_fault = false, got_other = false; long val = 0; std::string what;
    try { if (b.e) val = b.e->await_resume(); else if (b.l) val = b.l->await_resume(); else if (b.v) b.v->await_resume(); }
    catch (std::runtime_error const& ex) { got_std = true; what = ex.what(); }
    catch (clause_fault const&) { got_fault = true; }
    catch (...) { got_other = true; }
    ++st.completed;
    if (got_std || got_fault) ++st.threw_at_await;
    if (got_other) { fail("result", "awaiting coroutine#" + std::to_string(cid) + " raised an unknown exception"); return; }
    if (got_fault) { /* an injected clause fault surfaced where the result is awaited: as required */ }
    else if (want_throw_std) {
      const std::string want_what = (lr_mask(e.shape) & 512u) ? "cov " + std::to_string(c.ret_val) : "co " + std::to_string(c.exp);
      if (!got_std || what != want_what) { fail("result", "awaiting coroutine#" + std::to_string(cid) + " of " + desc(c.exp) + " did not raise the CO_THROW exception"); return; }
    } else {
      if (got_std) { fail("result", "awaiting coroutine#" + std::to_string(cid) + " raised '" + what + "' but " + desc(c.exp) + " has a CO_RETURN"); return; }
      if (d.ret != RT_VOID) {
        long wv = c.ret_val;
        if (val != wv) { fail("result", "coroutine#" + std::to_string(cid) + " of " + desc(c.exp) + " returned " + std::to_string(val) + ", CO_RETURN gives " + std::to_string(wv)); return; }
      }
    }
    finish(cid);
  }

  void finish(int cid) {
    MCoro& c = M.coros[static_cast<size_t>(cid)];
    c.alive = false;
    M.exps[static_cast<size_t>(c.exp)].live_coros--;
    boxes[static_cast<size_t>(cid)].reset();
  }

  void do_destroy(const Op& op) {
    auto live = live_coros(); if (live.empty()) return;
    int cid = live[static_cast<unsigned>(op.a[0]) % live.size()];
    if (!M.coros[static_cast<size_t>(cid)].done) ++st.destroyed_unfinished;
    finish(cid);
    if (!reports.empty()) fail("destroy_report", "destroying a coroutine reported: " + reports[0].msg);
  }

  void observe() {
    for (auto& e : M.exps) {
      if (!e.alive) continue;
      bool s = eps[static_cast<size_t>(e.id)]->is_satisfied(), f = eps[static_cast<size_t>(e.id)]->is_saturated();
      if (s != M.sat(e) || f != M.full(e)) { fail("count_at_call_time", "is_satisfied/is_saturated = " + std::to_string(s) + "/" + std::to_string(f) + " but the model says " + std::to_string(M.sat(e)) + "/" + std::to_string(M.full(e)) + " for " + desc(e.id) + " (coroutine calls are counted at call time)"); return; }
    }
  }
};

// ---------------- generator ----------------
static Plan gen_plan(uint64_t seed, bool faults, bool lazy_params) {
  Rng rng(seed ^ 0xc0c0c0c0ULL);
  Plan p; p.seed = seed; p.cfg.mode = 2; p.cfg.faults_enabled = faults; p.cfg.deny_mask = lazy_params ? 0 : 8;
  p.tasks.resize(1);
  auto& ops = p.tasks[0];
  int len = rng.chance(1, 4) ? rng.range(3, 8) : rng.range(8, 30);
  int focus = rng.below(NCF);
  auto mk_expect = [&]() { Op o; o.kind = OP_EXPECT; int sh = rng.below(ncshapes); for (int t = 0; t < 6 && cshapes[sh].fn != focus; ++t) sh = rng.below(ncshapes); o.a[0] = sh; o.a[2] = rng.below(3); o.a[3] = rng.below(50); o.a[5] = rng.below(3); o.a[6] = rng.below(3); return o; };
  ops.push_back(mk_expect());
  for (int i = 0; i < len; ++i) {
    static const int w[] = {20, 30, 35, 5, 6, 8, 2};
    Op o;
    switch (rng.pick(w, 7)) {
      case 0: o = mk_expect(); break;
      case 1: o.kind = OP_CO_CALL; o.a[1] = rng.chance(3, 4) ? focus : rng.below(NCF); o.a[2] = rng.below(3); if (faults && rng.chance(1, 8)) { o.fault = FK_THROW; o.fault_at = rng.below(5); } break;
      case 2: o.kind = OP_CO_RESUME; o.a[0] = rng.below(8); if (faults && rng.chance(1, 10)) o.fault = FK_THROW; break;
      case 3: o.kind = OP_CO_DESTROY; o.a[0] = rng.below(8); break;
      case 6: o.kind = OP_DESTROY_MOCK; break;
      case 5: o.kind = OP_MUTATE; o.a[0] = rng.below(8); o.a[1] = rng.below(8); o.a[2] = (focus == CF_CR || rng.chance(1, 4)) ? rng.below(2) : 0; break;
      default: o.kind = OP_RELEASE; o.a[0] = rng.below(8); break;
    }
    ops.push_back(o);
  }
  // drain: resume everything to completion in seeded order
  for (int i = 0; i < 30; ++i) { Op o; o.kind = OP_CO_RESUME; o.a[0] = rng.below(8); ops.push_back(o); }
  return p;
}

}  // namespace simc

using namespace simc;

static volatile unsigned long long g_inflight = 0;
static bool g_stop_after_violation = false;
static void on_terminate() { char buf[96]; int n = std::snprintf(buf, sizeof buf, "T %llu coro std::terminate called\n", g_inflight); if (write(1, buf, static_cast<size_t>(n)) < 0) {} _exit(78); }
static std::string one_line(std::string s) { for (auto& c : s) if (c == '\n' || c == '\r') c = '|'; return s; }

static void write_replay(const std::string& path, const Plan& p, const Violation& v, uint64_t hash) {
  std::ofstream f(path);
  f << "# trompeloeil deterministic-simulation replay file v1\nbinary simC\nprofile coro\nproperty " << v.props << "\noracle " << v.oracle << "\nviolation " << one_line(v.text) << "\nfailing_op " << v.op_index << "\nhash " << std::hex << hash << std::dec << '\n' << plan_to_text(p);
}

static int run_plan(const Plan& p, ExecC& ex) {
  ex.allow_lazy_params = !(p.cfg.deny_mask & 8);
  const auto& ops = p.tasks[0];
  for (size_t i = 0; i < ops.size() && !ex.failed; ++i) { ex.cur = static_cast<int>(i); ex.step(ops[i]); }
  return ex.failed ? 1 : 0;
}

int main(int argc, char** argv) {
  std::set_terminate(on_terminate);
  if (argc < 2) return 2;
  std::string cmd = argv[1], out = ".";
  unsigned long long base = 1, count = 1, seed = 1; int faults = 1, samples = 0; bool verbose = false, lazy_params = true; const char* file = nullptr;
  for (int i = 2; i < argc; ++i) {
    std::string a = argv[i];
    auto next = [&]() -> const char* { return i + 1 < argc ? argv[++i] : ""; };
    if (a == "--seed-base") base = std::strtoull(next(), nullptr, 10);
    else if (a == "--count") count = std::strtoull(next(), nullptr, 10);
    else if (a == "--seed") seed = std::strtoull(next(), nullptr, 10);
    else if (a == "--faults") faults = std::atoi(next());
    else if (a == "--out") out = next();
    else if (a == "--samples") samples = std::atoi(next());
    else if (a == "--profile") next();
    else if (a == "--no-lazy-params") lazy_params = false;
    else if (a == "-v") verbose = true;
    else file = argv[i];
  }
  if (cmd == "plan") { Plan p = gen_plan(seed, faults != 0, lazy_params); std::fputs(plan_to_text(p).c_str(), stdout); return 0; }
  if (cmd == "replay") {
    std::ifstream f(file ? file : ""); Plan p;
    if (!f || !plan_from_text(f, p)) { std::fprintf(stderr, "cannot read %s\n", file ? file : "?"); return 2; }
    g_inflight = p.seed;
    std::printf("B %llu\n", static_cast<unsigned long long>(p.seed)); std::fflush(stdout);
    ExecC* ex = new ExecC; ex->verbose = verbose;
    int rc = run_plan(p, *ex);
    if (rc) std::printf("V %llu %s %s %s | %s\n", static_cast<unsigned long long>(p.seed), ex->viol.props.c_str(), ex->viol.oracle.c_str(), file, one_line(ex->viol.text).c_str());
    std::printf("R %llu %016llx\n", static_cast<unsigned long long>(p.seed), static_cast<unsigned long long>(ex->hash));
    std::fflush(stdout);
    if (rc) _exit(1);
    delete ex;
    return 0;
  }
  if (cmd != "run") return 2;
  Stats tot; long faults_fired0 = g_faults_fired;
  size_t warm = 0;
  for (unsigned long long s = base; s < base + count; ++s) {
    g_inflight = s;
    std::printf("B %llu\n", s); std::fflush(stdout);
    Plan p = gen_plan(s, faults != 0, lazy_params);
    size_t before = __sanitizer_get_current_allocated_bytes();
    uint64_t h = 0, fph = 0; unsigned mask = 0; bool failed = false;
    {
      ExecC* ex = new ExecC;
      failed = run_plan(p, *ex) != 0;
      h = ex->hash; fph = fnv1a(0xcbf29ce484222325ULL, ex->fp.data(), ex->fp.size());
      if (ex->st.calls_accepted) mask = 1u << 14;
      for (int i = 0; i < OP_KIND_COUNT; ++i) tot.ops[i] += ex->st.ops[i];
#define ADD(f) tot.f += ex->st.f;
      ADD(calls_accepted) ADD(calls_rejected) ADD(resumes) ADD(late_resumes) ADD(interleaved_resumes) ADD(destroyed_unfinished) ADD(eager) ADD(lazy) ADD(clause_throw) ADD(completed) ADD(threw_at_await) ADD(multi_call_same_exp) ADD(lazy_with_param) ADD(mutations) ADD(referent_mutations) ADD(mock_deaths)
#undef ADD
      if (failed) {
        std::string path = out + "/seedC-" + std::to_string(s) + ".replay";
        write_replay(path, p, ex->viol, h);
        std::printf("V %llu %s %s %s | %s\n", s, ex->viol.props.c_str(), ex->viol.oracle.c_str(), path.c_str(), one_line(ex->viol.text).c_str());
      } else delete ex;
    }
    std::printf("R %llu %016llx %016llx %x %zu\n", s, static_cast<unsigned long long>(h), static_cast<unsigned long long>(fph), mask, p.tasks[0].size());
    if (failed) { g_stop_after_violation = true; break; }
    size_t after = __sanitizer_get_current_allocated_bytes();
    if (warm >= 3 && after > before) std::printf("K %llu %zu\n", s, after - before);
    ++warm;
    if (samples > 0 && mask) { --samples; std::printf("SAMPLE %llu %s\n", s, one_line(plan_to_text(p)).c_str()); }
    std::fflush(stdout);
  }
  std::ostringstream js;
  js << "{\"ops\":{";
  bool first = true;
  for (int i = 0; i < OP_KIND_COUNT; ++i) if (tot.ops[i]) { js << (first ? "" : ",") << '"' << op_name(i) << "\":" << tot.ops[i]; first = false; }
  js << "},\"calls_accepted\":" << tot.calls_accepted << ",\"calls_rejected\":" << tot.calls_rejected << ",\"f_late_resume\":" << tot.late_resumes << ",\"f_interleaved_resume\":" << tot.interleaved_resumes
     << ",\"f_clause_throw\":" << tot.clause_throw << ",\"f_abandon\":" << tot.destroyed_unfinished << ",\"f_fatal_unwind\":" << tot.calls_rejected
     << ",\"p_resumes\":" << tot.resumes << ",\"p_eager_calls\":" << tot.eager << ",\"p_lazy_calls\":" << tot.lazy << ",\"p_completed\":" << tot.completed << ",\"p_threw_at_await\":" << tot.threw_at_await
     << ",\"p_multi_call_same_expectation\":" << tot.multi_call_same_exp << ",\"p_lazy_with_parameter\":" << tot.lazy_with_param << ",\"p_local_mutated_after_creation\":" << tot.mutations << ",\"p_referent_changed_before_resume\":" << tot.referent_mutations << ",\"f_owner_death\":" << tot.mock_deaths << ",\"flag_observations\":0}";
  std::printf("STATS %s\n", js.str().c_str());
  (void)faults_fired0;
  bool any_failed = false;
  (void)any_failed;
  std::fflush(stdout);
  if (g_stop_after_violation) _exit(3);
  if (__lsan_do_recoverable_leak_check()) std::printf("L %llu %llu leak(s) reported by LeakSanitizer in this batch\n", base, base + count - 1);
  std::fflush(stdout);
  return 0;
}
