// Plan generator (DESIGN.md 3.3): one PRNG, swarm-style per-run configuration, a shadow model
// so that operations are aimed at in-flight state (calls at functions with several live matches,
// destructions at objects with dependants, arguments at operand boundaries).
#pragma once
#include "exec.hpp"
#include "rng.hpp"

namespace sim {

enum Profile { PF_GENERAL, PF_BOUNDS, PF_LIFETIME, PF_SEQ, PF_FORBID, PF_CLAUSES, PF_WATCHED, PF_DESTROY, PF_REPORTS,
               PF_OKREP, PF_TRACE, PF_COUNT };

inline const char* profile_name(int p) {
  static const char* n[] = {"general", "bounds", "lifetime", "seq", "forbid", "clauses", "watched", "destroy", "reports", "okrep", "trace"};
  return p >= 0 && p < PF_COUNT ? n[p] : "?";
}
inline int profile_from_name(const std::string& s) {
  for (int p = 0; p < PF_COUNT; ++p) if (s == profile_name(p)) return p;
  return -1;
}

struct GenCfg {
  int w[OP_KIND_COUNT] = {};
  int nested_pct = 0, fault_pct = 0, inverted_pct = 2;
  int len_lo = 8, len_hi = 40;
  bool teardown = true;
};

inline GenCfg profile_cfg(int profile, Rng& rng, bool faults) {
  GenCfg c;
  int* w = c.w;
  // base mix
  w[OP_NEW_MOCK] = 4; w[OP_DESTROY_MOCK] = 2; w[OP_MOVE_MOCK] = 2; w[OP_NEW_SEQ] = 2; w[OP_MOVE_SEQ] = 1; w[OP_DESTROY_SEQ] = 1;
  w[OP_EXPECT] = 22; w[OP_RELEASE] = 6; w[OP_ABANDON] = 1; w[OP_CALL] = 40; w[OP_Q_COMPLETED] = 1;
  w[OP_NEW_WATCHED] = 1; w[OP_DESTROY_WATCHED] = 1; w[OP_COPY_WATCHED] = 0; w[OP_MOVECONS_WATCHED] = 0; w[OP_ASSIGN_WATCHED] = 0;
  w[OP_REQ_DESTRUCTION] = 1; w[OP_RELEASE_MON] = 1; w[OP_PUSH_TRACER] = 1; w[OP_POP_TRACER] = 1; w[OP_SET_REPORTER] = 1; w[OP_MUTATE] = 2; w[OP_WIDE] = 1; w[OP_END_SCOPE] = 3; w[OP_UNWIND] = 1; w[OP_ASSIGN_SEQ] = 1;
  c.nested_pct = 14; c.fault_pct = 10;
  switch (profile) {
    case PF_BOUNDS: w[OP_CALL] = 60; w[OP_EXPECT] = 20; c.inverted_pct = 6; break;
    case PF_LIFETIME: w[OP_END_SCOPE] = 8; w[OP_UNWIND] = 3; w[OP_RELEASE] = 14; w[OP_DESTROY_MOCK] = 8; w[OP_MOVE_MOCK] = 6; w[OP_ABANDON] = 3; w[OP_NEW_MOCK] = 8; break;
    case PF_SEQ: w[OP_ASSIGN_SEQ] = 2; w[OP_NEW_SEQ] = 4; w[OP_DESTROY_SEQ] = 2; w[OP_Q_COMPLETED] = 3; w[OP_REQ_DESTRUCTION] = 7; w[OP_NEW_WATCHED] = 5; w[OP_DESTROY_WATCHED] = 7; w[OP_RELEASE] = 8; break;   // (several sequenced requirements dying in every order: D13)
    case PF_FORBID: w[OP_RELEASE] = 10; break;
    case PF_CLAUSES: c.nested_pct = 35; c.fault_pct = 25; w[OP_MUTATE] = 10; w[OP_WIDE] = 8; break;
    case PF_WATCHED: w[OP_NEW_WATCHED] = 12; w[OP_DESTROY_WATCHED] = 12; w[OP_COPY_WATCHED] = 4; w[OP_MOVECONS_WATCHED] = 4; w[OP_ASSIGN_WATCHED] = 5;
      w[OP_REQ_DESTRUCTION] = 16; w[OP_RELEASE_MON] = 10; w[OP_CALL] = 10; w[OP_EXPECT] = 8; w[OP_NEW_SEQ] = 3; w[OP_ABANDON] = 2; break;
    case PF_DESTROY: w[OP_ASSIGN_SEQ] = 4; w[OP_DESTROY_MOCK] = 8; w[OP_MOVE_MOCK] = 8; w[OP_DESTROY_SEQ] = 6; w[OP_MOVE_SEQ] = 4; w[OP_NEW_SEQ] = 6; w[OP_RELEASE] = 10; w[OP_ABANDON] = 3;
      w[OP_NEW_WATCHED] = 5; w[OP_DESTROY_WATCHED] = 6; w[OP_REQ_DESTRUCTION] = 6; w[OP_RELEASE_MON] = 5; w[OP_COPY_WATCHED] = 2; w[OP_MOVECONS_WATCHED] = 2; w[OP_ASSIGN_WATCHED] = 2;
      w[OP_NEW_MOCK] = 8; w[OP_PUSH_TRACER] = 2; w[OP_POP_TRACER] = 2; c.nested_pct = 15; break;
    case PF_REPORTS: w[OP_CALL] = 50; w[OP_DESTROY_MOCK] = 5; w[OP_DESTROY_SEQ] = 3; w[OP_RELEASE] = 10; w[OP_DESTROY_WATCHED] = 3; w[OP_REQ_DESTRUCTION] = 3; w[OP_NEW_WATCHED] = 2; break;
    case PF_OKREP: w[OP_SET_REPORTER] = 8; w[OP_CALL] = 55; break;
    case PF_TRACE: w[OP_PUSH_TRACER] = 10; w[OP_POP_TRACER] = 8; w[OP_CALL] = 55; c.nested_pct = 20; c.fault_pct = 12; break;
    default: break;
  }
  if (!faults) { c.nested_pct = 0; c.fault_pct = 0; c.inverted_pct = 0; }
  // swarm: knock out a random subset of the optional kinds, vary length and rates
  static const int optional[] = {OP_MOVE_MOCK, OP_MOVE_SEQ, OP_DESTROY_SEQ, OP_ABANDON, OP_COPY_WATCHED, OP_MOVECONS_WATCHED,
                                 OP_ASSIGN_WATCHED, OP_PUSH_TRACER, OP_SET_REPORTER, OP_MUTATE, OP_DESTROY_MOCK, OP_NEW_WATCHED};
  for (int k : optional) if (rng.chance(1, 4)) w[k] = 0;
  if (rng.chance(1, 3)) { c.nested_pct /= 3; }
  if (rng.chance(1, 3)) { c.fault_pct /= 3; }
  if (rng.chance(1, 4)) { c.len_lo = 3; c.len_hi = 10; }
  else if (rng.chance(1, 4)) { c.len_lo = 30; c.len_hi = 60; }
  c.teardown = rng.chance(3, 4);
  if (globals().deep) { c.len_lo *= 2; c.len_hi = c.len_hi * 5 / 2; }
  return c;
}

inline bool shape_fits(int profile, const ShapeDesc& d, Rng& rng) {
  switch (profile) {
    case PF_BOUNDS: return d.bf != BF_DEFAULT || rng.chance(1, 4);
    case PF_SEQ: return (d.nseq > 0 && (d.L == 0 || d.runtime_bounds() || rng.chance(1, 2))) || rng.chance(1, 6);
    case PF_FORBID: return d.bf == BF_FORBID || d.bf == BF_T0 || d.bf == BF_ALLOW || d.runtime_bounds() || rng.chance(1, 3);
    case PF_CLAUSES: return d.nse + d.nwith >= 1 || rng.chance(1, 6);
    case PF_TRACE: return true;
    default: return true;
  }
}

class Generator {
 public:
  Generator(uint64_t seed, int profile, bool faults) : rng_(seed), profile_(profile), faults_(faults), shadow_(true) {}

  Plan make() {
    Plan p;
    p.cfg.profile = profile_; p.cfg.mode = 0; p.cfg.ntasks = 1; p.cfg.faults_enabled = faults_ ? 1 : 0;
    cfg_ = profile_cfg(profile_, rng_, faults_);
    // which functions this run concentrates on (dense interaction)
    nfocus_ = rng_.range(1, 3);
    for (int i = 0; i < nfocus_; ++i) focus_[i] = pick_fn();
    focus_mock_ = rng_.below(8);
    scoped_pct_ = rng_.chance(1, 3) ? 0 : (profile_ == PF_LIFETIME ? 45 : 25);
    p.tasks.resize(1);
    auto& ops = p.tasks[0];
    // a little population first
    emit(ops, mk(OP_NEW_MOCK, rng_.below(2)));
    if (rng_.chance(1, 2)) emit(ops, mk(OP_NEW_MOCK, rng_.below(2)));
    int len = rng_.range(cfg_.len_lo, cfg_.len_hi);
    for (int i = 0; i < len; ++i) emit(ops, gen_op(0));
    if (cfg_.teardown) {
      std::vector<Op> td;
      for (int a = 0; a < 4; ++a) td.push_back(mk(OP_ABANDON, a));
      for (int k = 0; k < 4; ++k) { td.push_back(mk(OP_DESTROY_MOCK, rng_.below(8))); td.push_back(mk(OP_DESTROY_WATCHED, rng_.below(8))); td.push_back(mk(OP_DESTROY_SEQ, rng_.below(8))); }
      for (int k = 0; k < 6; ++k) td.push_back(mk(OP_RELEASE_MON, rng_.below(8)));
      for (int k = 0; k < 3; ++k) td.push_back(mk(OP_POP_TRACER, 0));
      for (size_t i = td.size(); i > 1; --i) std::swap(td[i - 1], td[static_cast<size_t>(rng_.below(static_cast<int>(i)))]);
      for (auto& o : td) emit(ops, o);
    }
    return p;
  }

 private:
  Rng rng_;
  int profile_;
  bool faults_;
  Exec shadow_;
  GenCfg cfg_;
  int focus_[3] = {0, 0, 0};
  int nfocus_ = 1;
  int focus_mock_ = 0;
  int scoped_pct_ = 0;

  static Op mk(int kind, int a0 = 0, int a1 = 0) { Op o; o.kind = kind; o.a[0] = a0; o.a[1] = a1; return o; }
  void emit(std::vector<Op>& ops, const Op& o) { ops.push_back(o); shadow_.step_shadow(o); }

  int pick_fn() {
    static const int w[NFN] = {10, 4, 5, 2, 2, 2, 3, 3, 3, 3, 3, 3};
    return rng_.pick(w, NFN);
  }

  Op gen_expect() {
    Op o; o.kind = OP_EXPECT;
    int fn = rng_.chance(4, 5) ? focus_[rng_.below(nfocus_)] : pick_fn();
    int shape = 0;
    for (int t = 0; t < 40; ++t) {
      shape = rng_.below(shape_count);
      const ShapeDesc& d = shape_table[shape];
      if (d.fn != fn && t < 30) continue;
      if (shape_fits(profile_, d, rng_)) break;
    }
    o.a[0] = shape;
    o.a[1] = rng_.chance(3, 4) ? focus_mock_ : rng_.below(8);
    o.a[2] = rng_.below(5); o.a[3] = rng_.below(5); o.a[4] = rng_.below(6);
    int lo = rng_.below(4), hi = lo + rng_.below(3);
    if (rng_.below(100) < cfg_.inverted_pct) { lo = rng_.range(1, 4); hi = rng_.below(lo); }
    o.a[5] = lo; o.a[6] = hi > 4 ? 4 : hi;
    if (shape_table[shape].bf == BF_RTAL && rng_.chance(1, 4)) o.a[5] = 4;   // AT_LEAST(2^40)
    o.a[7] = rng_.below(8); o.a[8] = rng_.below(2); o.a[9] = rng_.below(4);
    if (scoped_pct_ && rng_.below(100) < scoped_pct_) o.a[8] |= 2;   // the scoped macro form (top-level operations only)
    return o;
  }

  Op gen_call(int depth) {
    Op o; o.kind = OP_CALL;
    const Model& M = shadow_.model();
    std::vector<int> live = M.live_mocks();
    int mock_sel = rng_.chance(3, 4) ? focus_mock_ : rng_.below(8), fn = focus_[rng_.below(nfocus_)];
    if (!live.empty() && rng_.chance(19, 20)) {
      // prefer a mock that has expectations attached
      for (int t = 0; t < 8; ++t) {
        const MMock& mm = M.mocks[static_cast<size_t>(live[static_cast<size_t>(mock_sel) % live.size()])];
        bool any = false;
        for (int f = 0; f < NFN; ++f) if (!mm.active[f].empty() || !mm.saturated[f].empty()) any = true;
        if (any) break;
        mock_sel = rng_.below(8);
      }
    }
    int a0 = rng_.below(7), a1 = rng_.below(7);
    if (!live.empty()) {
      int mid = live[static_cast<size_t>(mock_sel) % live.size()];
      // prefer a function with live expectations; aim at one of them
      std::vector<int> cands;
      for (int f = 0; f < NFN; ++f) for (int e : M.mocks[static_cast<size_t>(mid)].active[f]) { cands.push_back(e); (void)f; }
      for (int f = 0; f < NFN; ++f) for (int e : M.mocks[static_cast<size_t>(mid)].saturated[f]) if (rng_.chance(1, 2)) cands.push_back(e);
      if (!cands.empty() && rng_.chance(19, 20)) {
        int pickid = cands[static_cast<size_t>(rng_.below(static_cast<int>(cands.size())))];
        if (rng_.chance(3, 4)) {  // mostly aim at something that is callable right now
          std::vector<int> callable;
          for (int c : cands) { const MExp& ce = M.exps[static_cast<size_t>(c)]; if (ce.attached && !ce.in_saturated && !ce.forb() && M.cost(ce) >= 0) callable.push_back(c); }
          if (!callable.empty()) pickid = callable[static_cast<size_t>(rng_.below(static_cast<int>(callable.size())))];
        }
        const MExp& e = M.exps[static_cast<size_t>(pickid)];
        fn = e.fn;
        const ShapeDesc& d = e.sd();
        int vals[2] = {a0, a1};
        for (int i = 0; i < fn_desc(fn).arity; ++i) {
          int ov = e.v[d.m[i].vi];
          static const int delta[] = {0, 0, 0, 0, 0, 1, -1, 2};
          vals[i] = ov + delta[rng_.below(8)];
          if (d.m[i].kind == MK_ANY || d.m[i].kind == MK_TYPEDANY) if (rng_.chance(1, 2)) vals[i] = rng_.below(6);
        }
        if (d.nwith && rng_.chance(1, 2)) vals[0] = e.v[2] + rng_.range(-1, 1);
        a0 = vals[0]; a1 = vals[1];
      }
    }
    o.a[0] = mock_sel; o.a[1] = fn; o.a[2] = a0; o.a[3] = a1;
    if (rng_.chance(1, 8)) o.a[5] = 1;   // made from inside a catch block
    else if (rng_.chance(1, 10)) o.a[5] = 2;   // made from a destructor during stack unwinding
    if (rng_.below(100) < cfg_.fault_pct) { o.fault = FK_THROW; o.fault_at = rng_.below(4); }
    if (depth < 2 && rng_.below(100) < cfg_.nested_pct) {
      int n = rng_.chance(1, 4) ? 2 : 1;
      for (int i = 0; i < n; ++i) {
        Op in = gen_nested(depth + 1);
        o.nested.push_back({rng_.chance(1, 5) ? -1 : rng_.chance(1, 8) ? -2 : rng_.below(3), in});
      }
    }
    return o;
  }

  Op gen_nested(int depth) {
    static const int kinds[] = {OP_CALL, OP_CALL, OP_CALL, OP_EXPECT, OP_RELEASE, OP_MUTATE, OP_Q_COMPLETED, OP_DESTROY_MOCK,
                                OP_DESTROY_SEQ, OP_REQ_DESTRUCTION, OP_DESTROY_WATCHED, OP_RELEASE_MON, OP_NEW_MOCK, OP_MOVE_MOCK};
    int k = kinds[rng_.below(static_cast<int>(sizeof kinds / sizeof kinds[0]))];
    if (cfg_.w[k] == 0 && k != OP_CALL) k = OP_CALL;
    Op o = gen_kind(k, depth);
    if (o.kind == OP_EXPECT || o.kind == OP_REQ_DESTRUCTION) o.a[8] &= 1;
    return o;
  }

  Op gen_kind(int k, int depth) {
    switch (k) {
      case OP_EXPECT: return gen_expect();
      case OP_CALL: return gen_call(depth);
      case OP_NEW_MOCK: return mk(k, rng_.chance(1, 5) ? 2 : rng_.below(2));
      case OP_MOVE_MOCK: return mk(k, rng_.below(8), rng_.below(2));
      case OP_ASSIGN_WATCHED: { Op o = mk(k, rng_.below(8), rng_.below(8)); o.a[2] = rng_.below(2); return o; }
      case OP_REQ_DESTRUCTION: { Op o = mk(k, rng_.below(8), profile_ == PF_SEQ ? rng_.range(0, 2) : (rng_.chance(1, 3) ? rng_.range(1, 2) : 0)); o.a[7] = rng_.below(8); o.a[9] = rng_.below(4); if (depth == 0 && scoped_pct_ && rng_.below(100) < scoped_pct_) o.a[8] |= 2; return o; }
      case OP_MUTATE: return mk(k, rng_.below(12), rng_.below(8));
      case OP_PUSH_TRACER: return mk(k, rng_.below(2));
      case OP_SET_REPORTER: return mk(k, rng_.below(2));
      case OP_NEW_WATCHED: return mk(k, 0, rng_.below(100));
      case OP_COPY_WATCHED: case OP_MOVECONS_WATCHED: return mk(k, rng_.below(12), rng_.below(2));
      case OP_RELEASE: {
        Op o = mk(k, rng_.below(12));
        if (depth == 0 && cfg_.nested_pct && rng_.below(100) < cfg_.nested_pct) {
          // only operations whose outcome does not depend on whether the dying expectation still counts as registered
          static const int kinds[] = {OP_DESTROY_MOCK, OP_DESTROY_MOCK, OP_RELEASE};
          Op in = gen_kind(kinds[rng_.below(3)], 2);
          in.nested.clear(); if (in.kind == OP_EXPECT) in.a[8] &= 1;
          o.nested.push_back({0, in});
        }
        return o;
      }
      case OP_ABANDON: return mk(k, rng_.below(4));
      case OP_ASSIGN_SEQ: { Op o = mk(k, rng_.below(12), rng_.below(12)); o.a[2] = rng_.below(3); o.a[3] = rng_.chance(1, 3) ? 1 : rng_.chance(1, 5) ? 2 : 0; return o; }
      case OP_WIDE: return mk(k, rng_.below(64), rng_.below(50));
      case OP_DESTROY_MOCK: case OP_DESTROY_SEQ: case OP_DESTROY_WATCHED: { Op o = mk(k, rng_.below(12)); if (rng_.chance(1, 6)) o.a[3] = 1; return o; }   // a[3]: destroyed by stack unwinding
      default: return mk(k, rng_.below(12));
    }
  }

  bool any_callable_target() {
    const Model& M = shadow_.model();
    for (auto& m : M.mocks) if (m.alive) for (int f = 0; f < NFN; ++f) if (!m.active[f].empty()) return true;
    return false;
  }

  Op gen_op(int depth) {
    int k = rng_.pick(cfg_.w, OP_KIND_COUNT);
    if (k == OP_CALL && !any_callable_target() && rng_.chance(9, 10)) k = OP_EXPECT;
    return gen_kind(k, depth);
  }
};

}  // namespace sim
