// Deterministic scheduler for Mode T (DESIGN.md 3.4): real threads, exactly one runnable at a time,
// every decision drawn from the run's PRNG or from an explicit schedule. C interface, static storage only:
// the implementation (sched.cpp) is compiled WITHOUT sanitizer instrumentation so that ThreadSanitizer
// never sees the hand-off between tasks as synchronisation.
#pragma once
#include <stdint.h>

extern "C" {

enum { SCHED_MAX_TASKS = 8, SCHED_MAX_DECISIONS = 20000 };
enum { POL_RANDOM = 0, POL_STICKY = 1, POL_PCT = 2, POL_QUANTUM = 3 };
enum { SCHED_OK = 0, SCHED_DEADLOCK = 1, SCHED_SELF_DEADLOCK = 2, SCHED_STEP_CAP = 3 };

// controller side
void sched_reset(uint64_t seed, int ntasks, int policy, int policy_param);
void sched_set_explicit(const int* decisions, int n);   // replay: entries are indices into the runnable set
void sched_run_all(void);        // controller: start the tasks and wait until all are done (or a fatal state)
int sched_status(void);
int sched_decisions(int* out, int cap);   // copy of the decisions taken (index into runnable set)
uint64_t sched_trace_hash(void);
long sched_stat(int which);      // 0 decisions, 1 context switches, 2 blocked-on-mutex events, 3 stalls honoured, 4 lock acquisitions

// task side
void sched_task_begin(int id);   // first thing a task thread does: park until scheduled
void sched_task_end(void);       // last thing: mark done, hand over
void sched_point(int kind);      // a yield point (op boundary, clause point)
void sched_stall(int n);         // this task is unschedulable for n decisions from now on (then yields)
int sched_self(void);            // task id of the calling thread, -1 for the controller
uint64_t sched_stamp(void);      // global event counter (monotone)
uint64_t sched_last_cs(void);    // stamp of the calling task's most recent outermost lock acquisition

// ThreadSanitizer reports captured by the (uninstrumented) hook: program counters only, symbolised later
enum { RACE_MAX = 32, RACE_DEPTH = 12 };
int sched_race_count(void);
const char* sched_race_desc(int i);
int sched_race_stack(int i, int which, void** out, int cap);   // which: 0,1 = the two accesses
void sched_race_clear(void);

// per task list of outermost critical-section stamps taken since the last sched_cs_mark()
void sched_cs_mark(void);
int sched_cs_since_mark(uint64_t* out, int cap);
}
