// The executor: steps the reference model and the real library side by side (Mode H),
// or only the model ("shadow", used by the plan generator), and evaluates every oracle.
#pragma once
#include <map>
#include <memory>
#include <string>
#include <vector>

#include "model.hpp"
#include "plan.hpp"
#include "report.hpp"

namespace sim {

struct Violation {
  std::string props;   // comma separated owning properties, e.g. "C01,C05"
  std::string oracle;  // short oracle id
  std::string text;    // human readable
  int op_index = -1;
};

// counters that become evidence
struct Stats {
  long ops[OP_KIND_COUNT] = {};
  long nested_ops = 0;
  long calls_accepted = 0, calls_rejected = 0;
  long f_clause_throw = 0, f_fatal_unwind = 0, f_reentry = 0, f_owner_death = 0, f_abandon = 0, f_ctor_throw = 0,
       f_relocate = 0, f_reporter_swap = 0, f_tracer_nest = 0;
  long relax_weak_call = 0, relax_maybe_named = 0, relax_monitor_listing = 0, relax_forbid_seq = 0;
  long desynced = 0;
  // reach probes
  long p_multi_match = 0, p_older_took_newer_saturated = 0, p_older_took_newer_blocked = 0, p_cost_tie = 0,
       p_forbid_shadows_allow = 0, p_mock_died_pending = 0, p_nested_call = 0, p_saturated_nomatch = 0,
       p_seq_mismatch = 0, p_passed_entry = 0, p_release_unfulfilled = 0, p_release_named = 0, p_moved_mock_call = 0,
       p_seq_destroy_nonempty = 0, p_monitor_ok = 0, p_monitor_unexpected = 0, p_monitor_still_alive = 0,
       p_monitor_seq_violation = 0, p_with_rejects = 0, p_lr_differs = 0, p_trace_records = 0, p_ok_reports = 0,
       p_rt_inverted = 0, p_multi_monitor = 0, p_assign_watched = 0, p_seq_taken_over = 0, p_watched_mock_death = 0, p_ok_reporter_op = 0, f_unwinding_death = 0, p_call_in_handler = 0, p_call_in_unwinding = 0, p_tracer_op = 0, p_seq_handed_back = 0, p_seq_self_assigned = 0;
  long flag_observations = 0;
  void add(const Stats& o);
  std::string to_json() const;
};

class ExecImpl;

class Exec {
 public:
  explicit Exec(bool shadow);
  ~Exec();
  // Mode H: run the single-task plan to the end or to the first violation
  void run(const Plan& p);
  // shadow stepping for the generator
  void step_shadow(const Op& op);
  const Model& model() const;
  bool failed() const;
  const Violation& violation() const;
  Stats& stats();
  const std::vector<uint64_t>& state_hashes() const;
  uint64_t log_hash() const;          // hash of the normalised event log (determinism gate)
  std::string fingerprint() const;    // abstracted operation/decision sequence (distinctness measure)
  int nontrivial_for(const char* prop) const;  // number of decisions this run gave the property's oracle
 private:
  std::unique_ptr<ExecImpl> p_;
};

struct fatal_report {};   // thrown by the conforming reporter on severity::fatal
struct clause_fault {};   // injected fault out of a user clause

// global switches set once by main
struct Globals {
  bool known_multi_monitor_allowed = true;   // generate >= 2 overlapping monitors on one object
  bool known_assign_watched_allowed = true;
  bool known_seq_destroy_live_allowed = true;
  bool verbose = false;
  bool deep = false;   // thorough tier: larger pools and longer plans (recorded in the plan configuration)
};
Globals& globals();
extern volatile int g_last_op_kind;  // for the terminate handler

}  // namespace sim
