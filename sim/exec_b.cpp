// Operations on mocks, sequences and expectations (everything except call / watched / tracers).
#include <algorithm>

#include "exec_impl.hpp"

namespace sim {

#define MAX_MOCKS (globals().deep ? 6 : 4)
#define MAX_SEQS (globals().deep ? 6 : 4)
#define MAX_EXPS (globals().deep ? 20 : 12)


std::string ExecImpl::exp_file(const MExp& e) const { return shape_fns(e.shape).file ? shape_fns(e.shape).file : ""; }

std::string ExecImpl::describe_exp(int id) const {
  const MExp& e = M.exps[id];
  std::ostringstream os;
  os << "exp#" << id << "[shape " << e.shape << " " << e.sd().text << " v=" << e.v[0] << "," << e.v[1] << "," << e.v[2]
     << " L=" << e.L << " H=" << e.H << " n=" << e.n << " mock=" << e.mock << (e.attached ? "" : " detached")
     << (e.named ? " named" : "") << " seqs=";
  for (int i = 0; i < e.nseq; ++i) os << e.seq[i] << (e.in_seq[i] ? "" : "(out)") << ' ';
  os << "]";
  return os.str();
}

// ---------------- mocks ----------------
void ExecImpl::op_new_mock(const Op& op) {
  if (static_cast<int>(M.live_mocks().size()) >= MAX_MOCKS) return;
  int k3 = ((op.a[0] % 3) + 3) % 3;
  // kind 2: an ordinary mock that is also deathwatched (trompeloeil::deathwatched<MockT<false>>)
  const bool dw = k3 == 2 && static_cast<int>(M.live_watched().size()) < max_watched();
  MMock m; m.id = static_cast<int>(M.mocks.size()); m.kind = k3 == 1 ? 1 : 0;
  if (dw) {
    MWatched w; w.id = static_cast<int>(M.watched.size()); w.kind = 1; w.mock = m.id;
    m.watched = w.id;
    M.watched.push_back(w);
  }
  M.mocks.push_back(m);
  if (!shadow) {
    RMock r; r.kind = m.kind;
    if (dw) {
      auto* p = new trompeloeil::deathwatched<MockT<false>>();
      r.a = p;
      rwatched.resize(M.watched.size(), nullptr);
      rwatched_mock.resize(M.watched.size(), nullptr);
      rwatched_mock[static_cast<size_t>(m.watched)] = p;
    }
    else if (m.kind == 0) r.a = new MockT<false>(); else r.m = new MockT<true>();
    rmocks.push_back(r);
  }
}

void ExecImpl::op_destroy_mock(const Op& op) {
  int id = pick(M.live_mocks(), op.a[0]);
  if (id < 0 || busy_mocks.count(id)) return;
  // while a dying expectation reports, it is still registered in its sequences: whether a requirement on a watched mock
  // is then "next in line" is fixed by no property, so the reporter does not destroy watched mocks
  if (M.mocks[id].watched >= 0) { if (!in_reporter_op) destroy_watched_mock(id); return; }
  if (M.mocks[id].moved_to) ctx_moved_mock = true;
  std::vector<XRep> want;
  mock_death_model(id, want);
  nontriv("C04"); nontriv("C14");
  if (shadow) return;
  Obs o; obs_stack.push_back(&o);
  RMock& r = rmocks[id];
  const bool uw = (op.a[3] & 1) != 0;
  if (uw) ++st.f_unwinding_death;
  run_during_unwinding(uw, [&]() { delete r.a; delete r.m; });
  r.a = nullptr; r.m = nullptr;
  obs_stack.pop_back();
  check_reports(o, want, true, uw ? "destroy_mock (by stack unwinding)" : "destroy_mock", "C04,C15");
  check_no_ok(o, "destroy_mock");
}

// a mock that is also deathwatched dies: first what ~deathwatched has to say (C13), then the mock's own end (C04)
void ExecImpl::destroy_watched_mock(int id) {
  const int wid = M.mocks[id].watched;
  std::vector<XRep> want;
  watched_death_model(wid, want);
  mock_death_model(id, want);
  M.mocks[id].watched = -1;
  nontriv("C04"); nontriv("C13"); nontriv("C14");
  ++st.p_watched_mock_death;
  if (shadow) return;
  Obs o; obs_stack.push_back(&o);
  RMock& r = rmocks[id];
  delete r.a; r.a = nullptr;
  rwatched_mock[static_cast<size_t>(wid)] = nullptr;
  obs_stack.pop_back();
  check_reports(o, want, true, "destruction of a watched mock object", "C13,C04,C15,C05");
  check_no_ok(o, "destroy_watched_mock");
}

// the model side of a mock object's end; returns whether anything still depended on it
bool ExecImpl::mock_death_model(int id, std::vector<XRep>& want) {
  MMock& m = M.mocks[id];
  bool had_dependants = false;
  for (int f = 0; f < NFN; ++f) {
    for (int pass = 0; pass < 2; ++pass) {
      auto& lst = pass == 0 ? m.active[f] : m.saturated[f];
      for (int eid : lst) {
        MExp& e = M.exps[eid];
        had_dependants = true;
        if (!e.named && !e.sat()) {
          XRep x; x.kind = RK_PENDING; x.fatal = false; x.exp = eid; x.optional = e.maybe_named;
          if (e.maybe_named) ++st.relax_maybe_named;
          want.push_back(x);
          e.named = true;
          ++st.p_mock_died_pending;
          // its sequence handles stay registered although its lifetime (C04) has ended: the properties do not
          // settle what the sequence looks like, so eligibility in those sequences is not asserted (DESIGN 3.5)
          for (int i = 0; i < e.nseq; ++i) if (e.in_seq[i] && e.seq[i] >= 0) M.seqs[e.seq[i]].tainted = true;
        }
        e.attached = false; e.in_saturated = false; e.mock = -1;
      }
      lst.clear();
    }
  }
  m.alive = false;
  if (had_dependants) ++st.f_owner_death;
  return had_dependants;
}

void ExecImpl::op_move_mock(const Op& op) {
  std::vector<int> live = M.live_mocks();
  if (live.empty()) return;
  int id = -1;
  for (size_t k = 0; k < live.size(); ++k) {
    int c = live[(static_cast<unsigned>(op.a[0]) + k) % live.size()];
    if (M.mocks[c].kind == 1 && !busy_mocks.count(c)) { id = c; break; }
  }
  if (id < 0) return;
  bool destroy_old = (op.a[1] & 1) || static_cast<int>(live.size()) >= MAX_MOCKS;
  MMock nm; nm.id = static_cast<int>(M.mocks.size()); nm.kind = 1; nm.moved_to = true;
  for (int f = 0; f < NFN; ++f) {
    nm.active[f] = M.mocks[id].active[f]; nm.saturated[f] = M.mocks[id].saturated[f];
    M.mocks[id].active[f].clear(); M.mocks[id].saturated[f].clear();
    for (int e : nm.active[f]) M.exps[e].mock = nm.id;
    for (int e : nm.saturated[f]) M.exps[e].mock = nm.id;
  }
  M.mocks.push_back(nm);
  if (destroy_old) M.mocks[id].alive = false;
  ++st.f_relocate;
  nontriv("C14");
  if (shadow) return;
  Obs o; obs_stack.push_back(&o);
  RMock r; r.kind = 1; r.m = new MockT<true>(std::move(*rmocks[id].m));
  rmocks.push_back(r);
  if (destroy_old) { delete rmocks[id].m; rmocks[id].m = nullptr; }
  obs_stack.pop_back();
  std::vector<XRep> none;
  check_reports(o, none, false, "move_mock", "C04,C14");
  check_no_ok(o, "move_mock");
}

// ---------------- sequences ----------------
void ExecImpl::op_new_seq(const Op&) {
  if (static_cast<int>(M.live_seqs().size()) >= MAX_SEQS) return;
  MSeq s; s.id = static_cast<int>(M.seqs.size());
  M.seqs.push_back(s);
  if (!shadow) rseqs.push_back(std::unique_ptr<trompeloeil::sequence>(new trompeloeil::sequence));
}

void ExecImpl::op_move_seq(const Op& op) {
  int id = pick(M.live_seqs(), op.a[0]);
  if (id < 0) return;
  ++st.f_relocate;
  nontriv("C14");
  if (shadow) return;
  Obs o; obs_stack.push_back(&o);
  std::unique_ptr<trompeloeil::sequence> n(new trompeloeil::sequence(std::move(*rseqs[id])));
  rseqs[id] = std::move(n);  // destroys the moved-from wrapper
  obs_stack.pop_back();
  std::vector<XRep> none;
  check_reports(o, none, false, "move_seq", "C06,C14");
}

void ExecImpl::op_destroy_seq(const Op& op) {
  int id = pick(M.live_seqs(), op.a[0]);
  if (id < 0) return;
  MSeq& s = M.seqs[id];
  // an expectation that still refers to the sequence (registered, or already passed / saturated) is a dependant
  bool referenced = false;
  for (auto& e : M.exps) if (e.alive) for (int i = 0; i < e.nseq; ++i) if (e.seq[i] == id) referenced = true;
  for (auto& mo : M.mons) if (mo.alive) for (int i = 0; i < mo.nseq; ++i) if (mo.seq[i] == id) referenced = true;
  if (referenced && !globals().known_seq_destroy_live_allowed) return;
  std::vector<XRep> want;
  if (s.list.empty() && s.tainted) {
    XRep x; x.kind = RK_SEQNOTMET; x.fatal = false; x.optional = true; x.any_of_m = true; want.push_back(x);
  }
  if (!s.list.empty()) {
    XRep x; x.kind = RK_SEQNOTMET; x.fatal = false; x.entries = s.list;
    bool only_monitors = true;
    for (auto& en : s.list) if (!en.is_mon) only_monitors = false;
    // C06 speaks of call expectations; requirements (monitors) still registered may or may not be listed (DESIGN 3.5),
    // and after a reported violation in this sequence nothing about it is asserted
    if (only_monitors || s.tainted) x.optional = true;
    if (s.tainted) x.any_of_m = true;
    want.push_back(x);
    ++st.p_seq_destroy_nonempty;
  }
  if (referenced) ++st.f_owner_death;
  for (auto& en : s.list) M.clear_membership(en, id);
  s.list.clear();
  s.alive = false;
  // survivors that named the sequence are orphaned with respect to it (DESIGN 3.5)
  for (auto& e : M.exps) for (int i = 0; i < e.nseq; ++i) if (e.seq[i] == id) { e.seq[i] = -1; e.in_seq[i] = false; e.orphan = true; }
  for (auto& mo : M.mons) for (int i = 0; i < mo.nseq; ++i) if (mo.seq[i] == id) { mo.seq[i] = -1; mo.in_seq[i] = false; }
  nontriv("C06"); nontriv("C14");
  if (shadow) return;
  bury_moved_from_seqs();
  if (stop) return;
  Obs o; obs_stack.push_back(&o);
  const bool uw = (op.a[3] & 1) != 0;
  if (uw) ++st.f_unwinding_death;
  run_during_unwinding(uw, [&]() { rseqs[id].reset(); });
  obs_stack.pop_back();
  check_reports(o, want, false, uw ? "destroy_seq (by stack unwinding)" : "destroy_seq", "C06,C15");
  check_no_ok(o, "destroy_seq");
}

// ---------------- expectations ----------------
void ExecImpl::op_expect(const Op& op, std::function<void()>* scope_body) {
  if (static_cast<int>(M.live_exps().size()) >= MAX_EXPS) return;
  int mock = pick(M.live_mocks(), op.a[1]);
  if (mock < 0) return;
  int shape = static_cast<int>(static_cast<unsigned>(op.a[0]) % static_cast<unsigned>(shape_count));
  const ShapeDesc& d = shape_table[shape];
  MExp e;
  e.id = static_cast<int>(M.exps.size()); e.shape = shape; e.mock = mock; e.fn = d.fn; e.actor = op.a[9] & 3;
  for (int i = 0; i < 3; ++i) e.v[i] = op.a[2 + i];
  long lo = ((op.a[5] % 5) + 5) % 5, hi = ((op.a[6] % 5) + 5) % 5;
  if (d.bf == BF_RT1) { e.L = lo; e.H = lo; }
  else if (d.bf == BF_RT2) { e.L = lo; e.H = hi; }
  else if (d.bf == BF_RTAL) { if (op.a[5] == 4) lo = 1L << 40; e.L = lo; e.H = UNBOUNDED; }   // RT_TIMES(AT_LEAST(lo)), also with a count beyond 32 bits
  else if (d.bf == BF_RTAM) { e.L = 0; e.H = hi; }            // RT_TIMES(AT_MOST(hi))
  else { e.L = d.L; e.H = d.H; }
  bool inverted = d.bf == BF_RT2 && lo > hi;
  e.snap0 = e.snap = op.a[4] & 7;  // initial value of the mutable cell
  e.nseq = d.nseq;
  // choose sequences: rotate the live list, take the first nseq, optionally reversed; create what is missing
  std::vector<int> live = M.live_seqs();
  while (static_cast<int>(live.size()) < d.nseq) { Op ns; ns.kind = OP_NEW_SEQ;
    MSeq s; s.id = static_cast<int>(M.seqs.size()); M.seqs.push_back(s);
    if (!shadow) rseqs.push_back(std::unique_ptr<trompeloeil::sequence>(new trompeloeil::sequence));
    live = M.live_seqs(); (void)ns; }
  std::vector<int> chosen;
  if (d.nseq) {
    size_t rot = static_cast<unsigned>(op.a[7]) % live.size();
    for (int i = 0; i < d.nseq; ++i) chosen.push_back(live[(rot + static_cast<size_t>(i)) % live.size()]);
    if (op.a[8] & 1) std::reverse(chosen.begin(), chosen.end());
  }
  for (int i = 0; i < d.nseq; ++i) e.seq[i] = chosen[static_cast<size_t>(i)];
  e.order = M.clock++;
  e.line = d.line;
  // scoped form: in shadow stepping decided by the flag alone (the scope ends at the matching end_scope operation),
  // in real stepping only when the caller handed us the body that runs inside the scope
  const bool scoped = (op.a[8] & 2) && d.sline && !inverted && (shadow ? depth == 1 : scope_body != nullptr);
  if (scoped) { e.scoped = true; e.line = d.sline; }
  nontriv("C03");
  if (inverted) {
    ++st.f_ctor_throw; ++st.p_rt_inverted;
    // C03: throws std::logic_error and leaves no expectation and no sequence registration behind
    if (shadow) return;
    Obs o; obs_stack.push_back(&o);
    std::unique_ptr<Inst> inst(new Inst);
    std::unique_ptr<int> cell(new int(0));
    inst->id = e.id; for (int i = 0; i < 3; ++i) inst->v[i] = e.v[i];
    inst->lo = static_cast<size_t>(lo); inst->hi = static_cast<size_t>(hi); inst->snap = e.snap; inst->str = std::to_string(1000 + e.id); inst->pr = {1000 + e.id, e.id}; inst->exc.text = "inst " + std::to_string(e.id); inst->cell = cell.get();
    for (int i = 0; i < d.nseq; ++i) inst->s[i] = rseqs[chosen[static_cast<size_t>(i)]].get();
    bool threw = false;
    try {
      RMock& r = rmocks[mock];
      EP ep = shape_fns(shape).make[r.kind](r.kind ? static_cast<void*>(r.m) : static_cast<void*>(r.a), *inst);
      (void)ep;
    } catch (std::logic_error const&) { threw = true; }
    catch (...) {}
    obs_stack.pop_back();
    if (!threw) { fail("C03", "rt_times_inverted_throws", "RT_TIMES(lo>hi) did not throw std::logic_error for shape " + std::string(d.text)); return; }
    std::vector<XRep> none;
    check_reports(o, none, false, "expect(RT_TIMES inverted)", "C03");
    return;
  }
  // model transition
  e.attached = true;
  for (int i = 0; i < d.nseq; ++i) { M.seqs[e.seq[i]].list.push_back(MEntry{false, e.id}); e.in_seq[i] = true; }
  M.exps.push_back(e);
  M.mocks[mock].active[d.fn].insert(M.mocks[mock].active[d.fn].begin(), e.id);
  if (shadow) { if (scoped) scope_stack.push_back({false, e.id}); return; }
  if (scoped) {
    // ---- the expectation is a local of sshape_N's frame; everything up to the matching end_scope runs inside it ----
    const int id = e.id;
    rexps.resize(M.exps.size());
    RExp& slot = rexps[static_cast<size_t>(id)];
    slot.inst.reset(new Inst); slot.cell.reset(new int(1000 + id));
    Inst& x = *slot.inst;
    x.id = id; for (int i = 0; i < 3; ++i) x.v[i] = e.v[i];
    x.lo = static_cast<size_t>(lo); x.hi = static_cast<size_t>(hi);
    if (!d.runtime_bounds()) { x.lo = static_cast<size_t>(e.L < 0 ? 0 : e.L); x.hi = static_cast<size_t>(e.H < 0 ? 0 : e.H); }
    x.snap = e.snap; x.str = std::to_string(1000 + id); x.pr = {1000 + id, id}; x.exc.text = "inst " + std::to_string(id); x.cell = slot.cell.get();
    for (int i = 0; i < d.nseq; ++i) x.s[i] = rseqs[chosen[static_cast<size_t>(i)]].get();
    Obs oc, od;
    std::vector<XRep> want_release;
    bool entered = false, unwinding = false;
    std::function<void()> inner = [&]() {
      entered = true;
      obs_stack.pop_back();                      // creation is over
      std::vector<XRep> none;
      check_reports(oc, none, false, "expect (scoped form)", "C04,C15");
      check_no_ok(oc, "expect");
      if (!stop) { observe_flags(); state_hashes.push_back(M.hash()); }
      bool aborted = false;
      if (!stop) { try { (*scope_body)(); } catch (scope_abort const&) { aborted = true; } }
      // the scope ends now (normally, or because an exception is on its way out): what its destructor must (not) report
      if (!stop) want_release = release_model(id);
      obs_stack.push_back(&od);
      if (aborted) { unwinding = true; throw scope_abort{}; }   // the expectation is destroyed during stack unwinding
    };
    obs_stack.push_back(&oc);
    bool threw = false;
    try {
      RMock& r = rmocks[static_cast<size_t>(mock)];
      shape_fns(shape).scoped[r.kind](r.kind ? static_cast<void*>(r.m) : static_cast<void*>(r.a), x, inner);
    } catch (scope_abort const&) { /* expected when unwinding */ }
    catch (...) { threw = true; }
    obs_stack.pop_back();
    if (stop) { if (unwinding) throw scope_abort{}; return; }
    if (threw || !entered) { fail("C01,C03", "expect_threw", "creating a legal expectation (scoped form) threw: " + describe_exp(id)); return; }
    check_reports(od, want_release, false, unwinding ? "end of scope (left by an exception)" : "end of scope", "C04,C15");
    check_no_ok(od, "end of scope");
    if (!stop && !unwinding) { observe_flags(); state_hashes.push_back(M.hash()); }
    if (unwinding) throw scope_abort{};   // on to the next outer scope
    return;
  }
  Obs o; obs_stack.push_back(&o);
  RExp re;
  re.inst.reset(new Inst); re.cell.reset(new int(1000 + e.id));
  Inst& x = *re.inst;
  x.id = e.id; for (int i = 0; i < 3; ++i) x.v[i] = e.v[i];
  x.lo = static_cast<size_t>(e.L < 0 ? 0 : e.L); x.hi = static_cast<size_t>(e.H < 0 ? 0 : e.H);
  if (d.runtime_bounds()) { x.lo = static_cast<size_t>(lo); x.hi = static_cast<size_t>(hi); }
  x.snap = e.snap; x.str = std::to_string(1000 + x.id); x.pr = {1000 + x.id, x.id}; x.exc.text = "inst " + std::to_string(x.id); x.cell = re.cell.get();
  for (int i = 0; i < d.nseq; ++i) x.s[i] = rseqs[chosen[static_cast<size_t>(i)]].get();
  bool threw = false;
  try {
    RMock& r = rmocks[mock];
    re.ep = shape_fns(shape).make[r.kind](r.kind ? static_cast<void*>(r.m) : static_cast<void*>(r.a), x);
  } catch (...) { threw = true; }
  obs_stack.pop_back();
  rexps.resize(M.exps.size());
  rexps[static_cast<size_t>(e.id)] = std::move(re);
  if (threw) { fail("C01,C03", "expect_threw", "creating a legal expectation threw: " + describe_exp(e.id)); return; }
  std::vector<XRep> none;
  check_reports(o, none, false, "expect", "C04,C15");
  check_no_ok(o, "expect");
}

// model part of an expectation's end of life: what must be reported; the expectation leaves mock and sequences
std::vector<XRep> ExecImpl::release_model(int id) {
  MExp& e = M.exps[id];
  if (e.mock >= 0 && M.mocks[static_cast<size_t>(e.mock)].moved_to) ctx_moved_mock = true;
  std::vector<XRep> want;
  if (e.attached && !e.named && !e.sat()) {
    XRep x; x.kind = RK_UNFULFILLED; x.fatal = false; x.exp = id; x.optional = e.maybe_named;
    if (e.maybe_named) ++st.relax_maybe_named;
    want.push_back(x);
    ++st.p_release_unfulfilled;
  } else if (e.named && !e.sat()) ++st.p_release_named;
  if (e.attached) {
    auto& lst = e.in_saturated ? M.mocks[e.mock].saturated[e.fn] : M.mocks[e.mock].active[e.fn];
    lst.erase(std::remove(lst.begin(), lst.end(), id), lst.end());
  }
  M.leave_all_sequences(e);
  e.attached = false; e.alive = false;
  nontriv("C04");
  return want;
}

void ExecImpl::release_exp(int id) {
  std::vector<XRep> want = release_model(id);
  if (shadow) return;
  Obs o; obs_stack.push_back(&o);
  rexps[static_cast<size_t>(id)].ep.reset();
  obs_stack.pop_back();
  check_reports(o, want, false, "release", "C04,C15");
  check_no_ok(o, "release");
  if (!stop) { rexps[static_cast<size_t>(id)].inst.reset(); rexps[static_cast<size_t>(id)].cell.reset(); }
}

// shadow stepping: every open scope ends; real stepping at nesting level 0 (no scope open): nothing to leave
void ExecImpl::op_unwind(const Op&) {
  if (!shadow) return;
  while (!scope_stack.empty()) { auto it = scope_stack.back(); scope_stack.pop_back(); if (it.first) { if (M.mons[static_cast<size_t>(it.second)].alive) release_mon_model(it.second); } else if (M.exps[static_cast<size_t>(it.second)].alive) release_model(it.second); }
}

// `seq = trompeloeil::sequence{}`: the overwritten sequence ends exactly like a destroyed one; the object lives on, empty
void ExecImpl::op_assign_seq(const Op& op) {
  int id = pick(M.live_seqs(), op.a[0]);
  if (id < 0) return;
  if (op.a[3] & 2) {
    // s = std::move(s): nothing may happen (no report, no entry lost); the model does not change
    ++st.f_relocate; ++st.p_seq_self_assigned;
    nontriv("C06"); nontriv("C14");
    if (shadow) return;
    Obs o; obs_stack.push_back(&o);
    trompeloeil::sequence& self = *rseqs[static_cast<size_t>(id)];
    self = std::move(self);
    obs_stack.pop_back();
    std::vector<XRep> none;
    check_reports(o, none, false, "self move-assignment of a sequence", "C06,C14");
    return;
  }
  if (!shadow && (op.a[3] & 1) && !moved_from_seqs.empty()) {
    // a moved-from sequence object is assigned to again (std::swap, or a sequence handed back to where it came from):
    // the live sequence moves house, nothing is reported, the model does not change
    Obs o; obs_stack.push_back(&o);
    *moved_from_seqs.back() = std::move(*rseqs[static_cast<size_t>(id)]);
    obs_stack.pop_back();
    std::swap(moved_from_seqs.back(), rseqs[static_cast<size_t>(id)]);
    ++st.f_relocate; ++st.p_seq_handed_back;
    nontriv("C14");
    std::vector<XRep> none;
    check_reports(o, none, false, "move assignment to a moved-from sequence object", "C06,C14");
    return;
  }
  MSeq& s = M.seqs[id];
  std::vector<XRep> want;
  if (s.list.empty() && s.tainted) { XRep x; x.kind = RK_SEQNOTMET; x.fatal = false; x.optional = true; x.any_of_m = true; want.push_back(x); }
  if (!s.list.empty()) {
    XRep x; x.kind = RK_SEQNOTMET; x.fatal = false; x.entries = s.list;
    bool only_monitors = true;
    for (auto& en : s.list) if (!en.is_mon) only_monitors = false;
    if (only_monitors || s.tainted) x.optional = true;
    if (s.tainted) x.any_of_m = true;
    want.push_back(x);
    ++st.p_seq_destroy_nonempty;
  }
  for (auto& en : s.list) M.clear_membership(en, id);
  s.list.clear();
  s.alive = false;
  for (auto& e : M.exps) for (int i = 0; i < e.nseq; ++i) if (e.seq[i] == id) { e.seq[i] = -1; e.in_seq[i] = false; e.orphan = true; }
  for (auto& mo : M.mons) for (int i = 0; i < mo.nseq; ++i) if (mo.seq[i] == id) { mo.seq[i] = -1; mo.in_seq[i] = false; }
  // the source: a fresh temporary, or another live sequence with whatever is pending in it (which the target takes over)
  int src = -1;
  if (op.a[2] % 3 != 0) { std::vector<int> live = M.live_seqs(); int c = pick(live, op.a[1]); if (c >= 0 && c != id) src = c; }
  if (src < 0) { MSeq fresh; fresh.id = static_cast<int>(M.seqs.size()); M.seqs.push_back(fresh); }
  ++st.f_relocate;
  nontriv("C06"); nontriv("C14");
  if (shadow) return;
  bury_moved_from_seqs();
  Obs o; obs_stack.push_back(&o);
  if (src < 0) *rseqs[static_cast<size_t>(id)] = trompeloeil::sequence{};
  else *rseqs[static_cast<size_t>(id)] = std::move(*rseqs[static_cast<size_t>(src)]);
  obs_stack.pop_back();
  if (src < 0) rseqs.push_back(std::move(rseqs[static_cast<size_t>(id)]));   // the same C++ object is now the fresh model sequence
  else {
    // the same C++ object now stands for the source's model sequence; the moved-from object owns nothing any more
    moved_from_seqs.push_back(std::move(rseqs[static_cast<size_t>(src)]));
    rseqs[static_cast<size_t>(src)] = std::move(rseqs[static_cast<size_t>(id)]);
    ++st.p_seq_taken_over;
  }
  check_reports(o, want, false, "move assignment over a sequence", "C06,C15");
  check_no_ok(o, "assign_seq");
  if (src >= 0 && op.a[2] % 3 == 1 && !stop) bury_moved_from_seqs();   // otherwise it dies at a later sequence operation or at the end
}

// moved-from sequence objects die: nothing may be reported and no live sequence may notice
void ExecImpl::bury_moved_from_seqs() {
  if (moved_from_seqs.empty()) return;
  Obs o; obs_stack.push_back(&o);
  moved_from_seqs.clear();
  obs_stack.pop_back();
  std::vector<XRep> none;
  check_reports(o, none, false, "destruction of a moved-from sequence object", "C06,C14");
}

// shadow stepping only: the innermost scope ends (real stepping consumes end_scope in run_range)
void ExecImpl::op_end_scope(const Op&) {
  if (!shadow || scope_stack.empty()) return;
  auto it = scope_stack.back(); scope_stack.pop_back();
  if (it.first) { if (M.mons[static_cast<size_t>(it.second)].alive) release_mon_model(it.second); }
  else if (M.exps[static_cast<size_t>(it.second)].alive) release_model(it.second);
}

void ExecImpl::op_release(const Op& op) {
  int id = pick(M.live_exps(), op.a[0]);
  if (id < 0 || busy_exps.count(id) || M.exps[static_cast<size_t>(id)].scoped) return;   // a scoped expectation ends with its scope only
  // attached operation: performed by the reporter itself if this release reports (the expectation is busy meanwhile)
  if (!op.nested.empty() && !shadow && depth == 1 && (op.nested[0].second.kind == OP_DESTROY_MOCK || op.nested[0].second.kind == OP_RELEASE)) { reporter_op = &op.nested[0].second; busy_exps.insert(id); }
  release_exp(id);
  if (reporter_op) reporter_op = nullptr;
  busy_exps.erase(id);
}

void ExecImpl::op_abandon(const Op& op) {
  int actor = op.a[0] & 3;
  ++st.f_abandon;
  // newest first over expectations and monitors of that actor (scope unwinding)
  struct It { uint64_t order; bool mon; int id; };
  std::vector<It> items;
  for (auto& e : M.exps) if (e.alive && !e.scoped && e.actor == actor && !busy_exps.count(e.id)) items.push_back({e.order, false, e.id});
  for (auto& m : M.mons) if (m.alive && !m.scoped && m.actor == actor) items.push_back({m.order, true, m.id});
  std::sort(items.begin(), items.end(), [](const It& a, const It& b) { return a.order > b.order; });
  for (auto& it : items) {
    if (stop) break;
    if (it.mon) release_mon(it.id); else release_exp(it.id);
  }
}

void ExecImpl::op_mutate(const Op& op) {
  int id = pick(M.live_exps(), op.a[0]);
  if (id < 0) return;
  M.exps[id].snap = op.a[1] & 7;
  M.exps[id].mutated = true;
  if (M.exps[id].snap != M.exps[id].snap0) ++st.p_lr_differs;
  if (!shadow) rexps[static_cast<size_t>(id)].inst->snap = M.exps[id].snap;
}

// ---------------- queries ----------------
void ExecImpl::op_q_sat(const Op& op) {
  int id = pick(M.live_exps(), op.a[0]);
  if (id < 0 || shadow || !rexps[static_cast<size_t>(id)].ep) return;   // (a scoped expectation has no handle to query)
  const MExp& e = M.exps[id];
  bool s = rexps[static_cast<size_t>(id)].ep->is_satisfied(), f = rexps[static_cast<size_t>(id)].ep->is_saturated();
  if (s != e.sat() || f != e.full())
    fail((std::string(e.forb() ? "C03,C07" : "C03") + (s != e.sat() ? ",C04" : "")).c_str(), "flags", "is_satisfied/is_saturated = " + std::to_string(s) + "/" + std::to_string(f) + " but model says " + std::to_string(e.sat()) + "/" + std::to_string(e.full()) + " for " + describe_exp(id));
}

void ExecImpl::op_q_completed(const Op& op) {
  int id = pick(M.live_seqs(), op.a[0]);
  if (id < 0 || shadow) return;
  if (M.seqs[id].tainted) return;
  bool c = rseqs[static_cast<size_t>(id)]->is_completed();
  nontriv("C06");
  if (c != M.seq_completed(id)) fail("C06", "is_completed", "sequence " + std::to_string(id) + " is_completed() = " + std::to_string(c) + ", model says " + std::to_string(M.seq_completed(id)));
}

void ExecImpl::observe_flags() {
  for (auto& e : M.exps) {
    if (!e.alive || stop) continue;
    EP& ep = rexps[static_cast<size_t>(e.id)].ep;
    if (!ep) continue;
    bool s = ep->is_satisfied(), f = ep->is_saturated();
    ++st.flag_observations;
    if (s != e.sat() || f != e.full()) {
      // a wrong is_satisfied() is a wrong idea of "below its lower bound": the end-of-life report (C04) will be wrong too
      fail((std::string(e.forb() ? "C03,C07" : "C03") + (s != e.sat() ? ",C04" : "")).c_str(), "flags", "after step: is_satisfied/is_saturated = " + std::to_string(s) + "/" + std::to_string(f) + " but model says " + std::to_string(e.sat()) + "/" + std::to_string(e.full()) + " for " + describe_exp(e.id));
      return;
    }
  }
  for (auto& m : M.mons) {
    if (!m.alive || stop || m.dangling) continue;
    EP& ep = rmons[static_cast<size_t>(m.id)];
    if (!ep) continue;
    bool s = ep->is_satisfied(), f = ep->is_saturated();
    ++st.flag_observations;
    if (s != m.died || f != m.died) {
      fail("C13", "monitor_flags", "monitor#" + std::to_string(m.id) + " is_satisfied/is_saturated = " + std::to_string(s) + "/" + std::to_string(f) + " but its object " + (m.died ? "has died" : "is alive"));
      return;
    }
  }
  for (auto& s : M.seqs) {
    if (!s.alive || s.tainted || stop) continue;
    bool c = rseqs[static_cast<size_t>(s.id)]->is_completed();
    ++st.flag_observations;
    if (c != M.seq_completed(s.id)) {
      std::ostringstream os;
      os << "after step: sequence#" << s.id << " is_completed() = " << c << ", model says " << M.seq_completed(s.id) << "; registered:";
      for (auto& en : s.list) os << ' ' << (en.is_mon ? "mon#" : "exp#") << en.id << (M.entry_sat(en) ? "(sat)" : "(unsat)");
      fail("C06", "is_completed", os.str());
      return;
    }
  }
}

}  // namespace sim
