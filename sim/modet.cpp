// Mode T: real threads parked and released one at a time by the deterministic scheduler (sched.cpp),
// recording a history that is then checked for data races (TSan build), deadlock, linearizability
// against the reference model and conservation (DESIGN.md 3.4, 3.6).
#include <cstdlib>
#include <functional>
#include <memory>
#include <sstream>
#include <thread>

#include "exec.hpp"
#include "gen.hpp"
#include "lin.hpp"
#include "modet.hpp"
#include "sched.hpp"
#include "world.hpp"

#if defined(__has_feature)
#if __has_feature(thread_sanitizer)
#define SIM_TSAN_BUILD 1
#endif
#endif
#ifdef SIM_TSAN_BUILD
extern "C" void AnnotateIgnoreReadsBegin(const char*, int);
extern "C" void AnnotateIgnoreReadsEnd(const char*, int);
extern "C" void AnnotateIgnoreWritesBegin(const char*, int);
extern "C" void AnnotateIgnoreWritesEnd(const char*, int);
extern "C" int __sanitizer_symbolize_pc(void* pc, const char* fmt, char* out, unsigned long len);
#endif

#ifdef TROMPELOEIL_CUSTOM_RECURSIVE_MUTEX
// secondary configuration (thorough tier): the library's own customisation point, served by a std::recursive_mutex
// so that the custom branch of get_lock() runs and its lock/unlock calls are still scheduler events
#include <mutex>
namespace trompeloeil {
std::unique_ptr<custom_recursive_mutex> create_custom_recursive_mutex() {
  struct M : custom_recursive_mutex { std::recursive_mutex m; void lock() override { m.lock(); } void unlock() override { m.unlock(); } };
  return std::unique_ptr<custom_recursive_mutex>(new M);
}
}
#endif

namespace sim {

namespace {

struct PlainT {
  int v;
  explicit PlainT(int v_ = 0) : v(v_) {}
  virtual ~PlainT() = default;
};

constexpr int EXP_PER_TASK = 16, MON_PER_TASK = 4, W_PER_TASK = 4, MAXT = SCHED_MAX_TASKS + 1;  // last "task" = controller

struct RExpT { std::unique_ptr<Inst> inst; std::unique_ptr<int> cell; EP ep; };

struct TaskCtx : ClauseSink {
  int id = 0;
  std::vector<Op> plan;
  std::vector<TOp> recs;
  Obs* cur = nullptr;
  const Op* cur_op = nullptr;
  int action_idx = 0;
  // own view
  std::vector<int> own_exps, own_mons, own_watched, held_mocks;
  int n_exp = 0, n_mon = 0, n_w = 0;
  long f_clause_throw = 0, f_stall = 0;
  void clause_log(char kind, int idn, int k, long v, const void* a1, const void* a2) override {
    if (cur) cur->clauses.push_back(ClauseEv{kind, idn, k, v, a1, a2, 0});
  }
  void clause_point() override {
    int j = action_idx++;
    sched_point(3);
    if (cur_op) {
      if (cur_op->stall > 0 && j == 0) { ++f_stall; sched_stall(cur_op->stall); }
      if (cur_op->fault == FK_THROW && cur_op->fault_at == j) { ++f_clause_throw; throw clause_fault{}; }
    }
  }
};

thread_local TaskCtx* t_task = nullptr;

// a tracer installed before the tasks start (C12: tracers are not installed concurrently with use, but they may be in
// use by all threads). Its log is deliberately unsynchronised: the library delivers records with its lock held.
struct TTracer : trompeloeil::tracer {
  std::vector<std::string> log;
  void trace(char const* file, unsigned long line, std::string const& call) override {
    log.push_back(call);
    if (t_task && t_task->cur) t_task->cur->traces.push_back(RawTrace{0, file ? file : "", line, call});
  }
};

// an ordinary or a movable mock object (the two kinds use different specialisations of trompeloeil::expectations)
struct MockBox {
  int kind = 0;
  MockT<false>* a = nullptr;
  MockT<true>* m = nullptr;
  explicit MockBox(int k) : kind(k) { if (k) m = new MockT<true>(); else a = new MockT<false>(); }
  ~MockBox() { delete a; delete m; }
  MockBox(const MockBox&) = delete;
  MockBox& operator=(const MockBox&) = delete;
  void* ptr() const { return kind ? static_cast<void*>(m) : static_cast<void*>(a); }
};

struct World {
  int ntasks = 0;
  std::vector<std::shared_ptr<MockBox>> mocks;                  // controller's references
  std::vector<std::vector<std::shared_ptr<MockBox>>> task_refs;  // [task][mock]
  std::vector<std::unique_ptr<trompeloeil::sequence>> seqs;
  std::vector<RExpT> exps;                                            // MAXT * EXP_PER_TASK slots
  std::vector<EP> mons;
  std::vector<trompeloeil::deathwatched<PlainT>*> watched;
  std::vector<TaskCtx> tasks;                                         // ntasks + controller
  std::unique_ptr<TTracer> tracer;
};

EP tmon0(trompeloeil::deathwatched<PlainT>* w, trompeloeil::sequence**) { return NAMED_REQUIRE_DESTRUCTION(*w); }
EP tmon1(trompeloeil::deathwatched<PlainT>* w, trompeloeil::sequence** s) { auto& s0 = *s[0]; return NAMED_REQUIRE_DESTRUCTION(*w).IN_SEQUENCE(s0); }
EP tmon2(trompeloeil::deathwatched<PlainT>* w, trompeloeil::sequence** s) { auto& s0 = *s[0]; auto& s1 = *s[1]; return NAMED_REQUIRE_DESTRUCTION(*w).IN_SEQUENCE(s0, s1); }

template <class MockType>
void do_call_t(MockType& m, int fn, int a0, int a1, Obs& o) {
  switch (fn) {
    case FN_F1: o.value = m.f(a0); o.outcome = OC_RET_INT; break;
    case FN_F2: o.value = m.f(a0, a1); o.outcome = OC_RET_INT; break;
    case FN_G: m.g(a0); o.outcome = OC_RET_VOID; break;
    case FN_R: { int cell = a0; int& r = m.r(cell); o.refaddr = &r; o.outcome = OC_RET_REF; break; }
    case FN_C: { const MockType& cm = m; o.value = cm.c(a0); o.outcome = OC_RET_INT; break; }
    case FN_U: { std::unique_ptr<Tracked> p(new Tracked(a0)); o.value = m.u(std::move(p)); o.outcome = OC_RET_INT; break; }
    case FN_S: { std::string s = std::to_string(a0); o.sval = m.s(s); o.outcome = OC_RET_STR; break; }
    case FN_K: { int cell = a0; const MockType& cm = m; const int& r = cm.k(cell); o.refaddr = &r; o.outcome = OC_RET_REF; break; }
    case FN_Z: m.z(); o.outcome = OC_RET_VOID; break;
    case FN_V: { std::vector<Tracked> vec; vec.reserve(3); vec.emplace_back(a0); vec.emplace_back(a0 + 1); vec.emplace_back(a0); m.v(vec); o.outcome = OC_RET_VOID; break; }
    case FN_CF: { const MockType& cm = m; o.value = cm.f(a0); o.outcome = OC_RET_INT; break; }
    case FN_P: { auto pr = m.p(a0); o.sval = "{ " + std::to_string(pr.first) + ", " + std::to_string(pr.second) + " }"; o.outcome = OC_RET_STR; break; }
    default: break;
  }
}

// one operation of a task (or of the controller when t == ntasks), recorded as a TOp
void exec_op(World& W, TaskCtx& T, const Op& op, bool concurrent) {
  TOp rec; rec.task = T.id; rec.idx = static_cast<int>(T.recs.size()); rec.kind = op.kind;
  Obs& o = rec.obs;
  auto pickv = [](const std::vector<int>& v, int a) { return v.empty() ? -1 : v[static_cast<unsigned>(a) % v.size()]; };
  bool skip = false;
  // ---- resolve targets against this task's own view (deterministic: depends on its program order only) ----
  switch (op.kind) {
    case OP_CALL: rec.mock = pickv(T.held_mocks, op.a[0]); rec.fn = ((op.a[1] % NFN) + NFN) % NFN; rec.args[0] = op.a[2]; rec.args[1] = op.a[3]; rec.fault = op.fault == FK_THROW; rec.fault_at = op.fault_at; skip = rec.mock < 0; break;
    case OP_EXPECT: {
      rec.mock = pickv(T.held_mocks, op.a[1]);
      if (rec.mock < 0 || T.n_exp >= EXP_PER_TASK) { skip = true; break; }
      rec.shape = static_cast<int>(static_cast<unsigned>(op.a[0]) % static_cast<unsigned>(shape_count));
      const ShapeDesc& d = shape_table[rec.shape];
      if (d.nseq > static_cast<int>(W.seqs.size())) { skip = true; break; }
      rec.exp = T.id * EXP_PER_TASK + T.n_exp;
      for (int i = 0; i < 3; ++i) rec.v[i] = op.a[2 + i];
      long lo = ((op.a[5] % 4) + 4) % 4, hi = lo + ((op.a[6] % 3) + 3) % 3;
      if (d.bf == BF_RT1) { rec.L = rec.H = lo; } else if (d.bf == BF_RT2) { rec.L = lo; rec.H = hi; } else if (d.bf == BF_RTAL) { rec.L = lo; rec.H = -1; } else if (d.bf == BF_RTAM) { rec.L = 0; rec.H = hi; } else { rec.L = d.L; rec.H = d.H; }
      rec.snap = op.a[4] & 7; rec.actor = T.id; rec.nseq = d.nseq; rec.fn = d.fn;
      size_t rot = static_cast<unsigned>(op.a[7]) % (W.seqs.empty() ? 1 : W.seqs.size());
      for (int i = 0; i < d.nseq; ++i) rec.seqs[i] = static_cast<int>((rot + static_cast<size_t>(i)) % W.seqs.size());
      break;
    }
    case OP_RELEASE: rec.exp = pickv(T.own_exps, op.a[0]); skip = rec.exp < 0; break;
    case OP_Q_SAT: {
      // a destruction requirement this task owns (its object may belong to another task) ...
      if ((op.a[1] & 2) && !T.own_mons.empty()) { rec.mon = pickv(T.own_mons, op.a[0]); break; }
      // ... or an own expectation, or one of the controller's long-lived ones
      const std::vector<int>& ll = W.tasks[static_cast<size_t>(W.ntasks)].own_exps;
      if ((op.a[1] & 1) && !ll.empty()) rec.exp = pickv(ll, op.a[0]); else rec.exp = pickv(T.own_exps, op.a[0]);
      if (rec.exp < 0 && !ll.empty()) rec.exp = pickv(ll, op.a[0]);
      skip = rec.exp < 0; break;
    }
    case OP_Q_COMPLETED: rec.seq = W.seqs.empty() ? -1 : static_cast<int>(static_cast<unsigned>(op.a[0]) % W.seqs.size()); skip = rec.seq < 0; break;
    case OP_NEW_WATCHED: if (T.n_w >= W_PER_TASK) { skip = true; break; } rec.watched = T.id * W_PER_TASK + T.n_w; break;
    case OP_REQ_DESTRUCTION: {
      rec.watched = pickv(T.own_watched, op.a[0]);
      if (rec.watched < 0 || T.n_mon >= MON_PER_TASK) { skip = true; break; }
      rec.nseq = ((op.a[1] % 3) + 3) % 3;
      if (rec.nseq > static_cast<int>(W.seqs.size())) rec.nseq = static_cast<int>(W.seqs.size());
      rec.mon = T.id * MON_PER_TASK + T.n_mon;
      size_t rot = static_cast<unsigned>(op.a[7]) % (W.seqs.empty() ? 1 : W.seqs.size());
      for (int i = 0; i < rec.nseq; ++i) rec.seqs[i] = static_cast<int>((rot + static_cast<size_t>(i)) % W.seqs.size());
      break;
    }
    case OP_DESTROY_WATCHED: rec.watched = pickv(T.own_watched, op.a[0]); skip = rec.watched < 0; break;
    case OP_RELEASE_MON: rec.mon = pickv(T.own_mons, op.a[0]); skip = rec.mon < 0; break;
    case OP_DROP_MOCK_REF: rec.mock = pickv(T.held_mocks, op.a[0]); skip = rec.mock < 0 || (concurrent && T.held_mocks.size() <= 1 && (op.a[1] & 1) == 0); break;
    default: skip = true;
  }
  if (skip) return;
  if (concurrent) sched_point(4);   // operation boundary
  T.cur = &o; T.cur_op = &op; T.action_idx = 0;
  sched_cs_mark();
  rec.invoke = sched_stamp();
  try {
    switch (op.kind) {
      case OP_CALL:
      {
        MockBox& b = *W.task_refs[static_cast<size_t>(T.id)][static_cast<size_t>(rec.mock)];
        if (b.kind) do_call_t(*b.m, rec.fn, rec.args[0], rec.args[1], o); else do_call_t(*b.a, rec.fn, rec.args[0], rec.args[1], o);
        break;
      }
      case OP_EXPECT: {
        RExpT& re = W.exps[static_cast<size_t>(rec.exp)];
        re.inst.reset(new Inst); re.cell.reset(new int(1000 + rec.exp));
        Inst& x = *re.inst;
        x.id = rec.exp; for (int i = 0; i < 3; ++i) x.v[i] = rec.v[i];
        x.lo = static_cast<size_t>(rec.L < 0 ? 0 : rec.L); x.hi = static_cast<size_t>(rec.H < 0 ? 0 : rec.H);
        x.snap = rec.snap; x.str = std::to_string(1000 + rec.exp); x.pr = {1000 + rec.exp, rec.exp}; x.exc.text = "inst " + std::to_string(rec.exp); x.cell = re.cell.get();
        for (int i = 0; i < rec.nseq; ++i) x.s[i] = W.seqs[static_cast<size_t>(rec.seqs[i])].get();
        MockBox& b = *W.task_refs[static_cast<size_t>(T.id)][static_cast<size_t>(rec.mock)];
        re.ep = shape_fns(rec.shape).make[b.kind](b.ptr(), x);
        T.own_exps.push_back(rec.exp); ++T.n_exp;
        o.outcome = OC_DONE;
        break;
      }
      case OP_RELEASE:
        W.exps[static_cast<size_t>(rec.exp)].ep.reset();
        T.own_exps.erase(std::find(T.own_exps.begin(), T.own_exps.end(), rec.exp));
        o.outcome = OC_DONE;
        break;
      case OP_Q_SAT: {
        trompeloeil::expectation* e = rec.mon >= 0 ? W.mons[static_cast<size_t>(rec.mon)].get() : W.exps[static_cast<size_t>(rec.exp)].ep.get();
        o.flag = e->is_satisfied(); o.flag2 = e->is_saturated(); o.outcome = OC_FLAG;
        break;
      }
      case OP_Q_COMPLETED: o.flag = W.seqs[static_cast<size_t>(rec.seq)]->is_completed(); o.outcome = OC_FLAG; break;
      case OP_NEW_WATCHED:
        W.watched[static_cast<size_t>(rec.watched)] = new trompeloeil::deathwatched<PlainT>(op.a[1]);
        T.own_watched.push_back(rec.watched); ++T.n_w; o.outcome = OC_DONE;
        break;
      case OP_REQ_DESTRUCTION: {
        trompeloeil::sequence* sq[2] = {nullptr, nullptr};
        for (int i = 0; i < rec.nseq; ++i) sq[i] = W.seqs[static_cast<size_t>(rec.seqs[i])].get();
        auto* w = W.watched[static_cast<size_t>(rec.watched)];
        W.mons[static_cast<size_t>(rec.mon)] = rec.nseq == 0 ? tmon0(w, sq) : rec.nseq == 1 ? tmon1(w, sq) : tmon2(w, sq);
        T.own_mons.push_back(rec.mon); ++T.n_mon; o.outcome = OC_DONE;
        break;
      }
      case OP_DESTROY_WATCHED:
        delete W.watched[static_cast<size_t>(rec.watched)]; W.watched[static_cast<size_t>(rec.watched)] = nullptr;
        T.own_watched.erase(std::find(T.own_watched.begin(), T.own_watched.end(), rec.watched));
        o.outcome = OC_DONE;
        break;
      case OP_RELEASE_MON:
        W.mons[static_cast<size_t>(rec.mon)].reset();
        T.own_mons.erase(std::find(T.own_mons.begin(), T.own_mons.end(), rec.mon));
        o.outcome = OC_DONE;
        break;
      case OP_DROP_MOCK_REF: {
        auto& ref = W.task_refs[static_cast<size_t>(T.id)][static_cast<size_t>(rec.mock)];
        std::weak_ptr<MockBox> wk = ref;
        ref.reset();
        rec.last_ref = wk.expired();
        T.held_mocks.erase(std::find(T.held_mocks.begin(), T.held_mocks.end(), rec.mock));
        o.outcome = OC_DONE;
        break;
      }
      default: break;
    }
  }
  catch (fatal_report const&) { o.outcome = OC_THREW_FATAL; }
  catch (clause_fault const&) { o.outcome = OC_THREW_FAULT; }
  catch (std::runtime_error const& ex) { o.outcome = OC_THREW_STD; o.sval = ex.what(); }
  catch (sim_error const& ex) { o.outcome = OC_THREW_USER; o.sval = ex.text; }
  catch (char const* cs) { o.outcome = OC_THREW_USER; o.sval = cs ? cs : ""; }
  catch (std::logic_error const& ex) { o.outcome = OC_THREW_LOGIC; o.sval = ex.what(); }
  catch (int v) { o.outcome = OC_THREW_INT; o.value = v; }
  catch (...) { o.outcome = OC_THREW_OTHER; }
  rec.response = sched_stamp();
  uint64_t cs[64]; int n = sched_cs_since_mark(cs, 64);
  for (int i = 0; i < n && i < 64; ++i) rec.cs.push_back(cs[i]);
  T.cur = nullptr; T.cur_op = nullptr;
  T.recs.push_back(std::move(rec));
}

void task_main(World* W, int id) {
  TaskCtx& T = W->tasks[static_cast<size_t>(id)];
  t_task = &T; t_sink = &T;
  sched_task_begin(id);
  for (auto& op : T.plan) exec_op(*W, T, op, true);
  // scope unwinding of whatever the plan left: own requirements and expectations, newest first
  while (!T.own_mons.empty()) { Op r; r.kind = OP_RELEASE_MON; r.a[0] = static_cast<int>(T.own_mons.size()) - 1; exec_op(*W, T, r, true); }
  while (!T.own_exps.empty()) { Op r; r.kind = OP_RELEASE; r.a[0] = static_cast<int>(T.own_exps.size()) - 1; exec_op(*W, T, r, true); }
  t_sink = nullptr; t_task = nullptr;
  sched_task_end();
}

}  // namespace

// ---------------- plan generation for Mode T ----------------
Plan gen_plan_t(uint64_t seed, bool faults) {
  Rng rng(seed ^ 0x7a5c3d1e9b0f2468ULL);
  Plan p; p.seed = seed; p.cfg.mode = 1; p.cfg.faults_enabled = faults;
  int nt_w[] = {0, 0, 30, 25, 15, 10, 8, 6, 6};
  p.cfg.ntasks = rng.pick(nt_w, 9);
  p.cfg.policy = rng.below(4);
  p.cfg.policy_param = p.cfg.policy == POL_STICKY ? rng.range(30, 90) : p.cfg.policy == POL_PCT ? rng.range(1, 4) : rng.range(1, 5);
  int nmocks = rng.range(1, 3), nseqs = rng.range(0, 2);
  // setup by the controller: mocks, sequences, a few long-lived expectations
  for (int i = 0; i < nmocks; ++i) { Op o; o.kind = OP_NEW_MOCK; o.a[0] = rng.chance(1, 3) ? 1 : 0; p.setup.push_back(o); }
  for (int i = 0; i < nseqs; ++i) { Op o; o.kind = OP_NEW_SEQ; p.setup.push_back(o); }
  if (rng.chance(1, 3)) { Op o; o.kind = OP_PUSH_TRACER; p.setup.push_back(o); }
  int nfocus = rng.range(1, 2), focus[2] = {0, 0};
  static const int fw[NFN] = {10, 3, 5, 1, 2, 1, 2, 1, 2, 1, 1, 2};
  for (int i = 0; i < nfocus; ++i) focus[i] = rng.pick(fw, NFN);
  auto gen_expect = [&](bool want_seq) {
    Op o; o.kind = OP_EXPECT;
    int shape = 0;
    for (int t = 0; t < 60; ++t) {
      shape = rng.below(shape_count);
      const ShapeDesc& d = shape_table[shape];
      if (d.nseq > nseqs) continue;
      if (d.fn != focus[rng.below(nfocus)] && t < 40) continue;
      if (want_seq && d.nseq == 0 && t < 30) continue;
      if (d.bf == BF_RT2 || d.bf == BF_RT1 || true) break;
    }
    if (shape_table[shape].nseq > nseqs) { for (shape = 0; shape < shape_count; ++shape) if (shape_table[shape].nseq == 0) break; }
    o.a[0] = shape; o.a[1] = rng.below(4); o.a[2] = rng.below(4); o.a[3] = rng.below(4); o.a[4] = rng.below(5);
    o.a[5] = rng.below(4); o.a[6] = rng.below(3); o.a[7] = rng.below(4);
    return o;
  };
  int nll = rng.range(0, 3);
  for (int i = 0; i < nll; ++i) p.setup.push_back(gen_expect(rng.chance(1, 2)));
  int nsw = rng.chance(1, 2) ? rng.range(1, 3) : 0;
  for (int i = 0; i < nsw; ++i) { Op o; o.kind = OP_NEW_WATCHED; o.a[1] = rng.below(100); o.a[2] = rng.below(8); p.setup.push_back(o); }
  for (int i = 0; i < nsw; ++i) {
    int nreq = rng.range(0, 2);
    for (int j = 0; j < nreq; ++j) { Op o; o.kind = OP_REQ_DESTRUCTION; o.a[0] = i; o.a[1] = rng.below(3); o.a[3] = rng.below(8); o.a[7] = rng.below(4); p.setup.push_back(o); }
  }
  p.tasks.resize(static_cast<size_t>(p.cfg.ntasks));
  int maxops = p.cfg.ntasks <= 3 ? 8 : p.cfg.ntasks <= 5 ? 6 : 4;
  for (int t = 0; t < p.cfg.ntasks; ++t) {
    int n = rng.range(2, maxops);
    for (int i = 0; i < n; ++i) {
      static const int w[] = {38, 22, 8, 8, 5, 3, 4, 3, 2, 3};
      int k = rng.pick(w, 10);
      Op o;
      switch (k) {
        case 0: o.kind = OP_CALL; o.a[0] = rng.below(4); o.a[1] = rng.chance(5, 6) ? focus[rng.below(nfocus)] : rng.below(NFN); o.a[2] = rng.below(5); o.a[3] = rng.below(5);
                if (faults && rng.chance(1, 10)) { o.fault = FK_THROW; o.fault_at = rng.below(3); }
                if (faults && rng.chance(1, 8)) o.stall = rng.range(1, 6);
                break;
        case 1: o = gen_expect(nseqs > 0 && rng.chance(1, 2)); break;
        case 2: o.kind = OP_RELEASE; o.a[0] = rng.below(8); break;
        case 3: o.kind = OP_Q_SAT; o.a[0] = rng.below(8); o.a[1] = rng.below(4); break;
        case 4: o.kind = OP_Q_COMPLETED; o.a[0] = rng.below(4); break;
        case 5: o.kind = OP_NEW_WATCHED; o.a[1] = rng.below(100); break;
        case 6: o.kind = OP_REQ_DESTRUCTION; o.a[0] = rng.below(4); o.a[1] = rng.below(3); o.a[7] = rng.below(4); break;
        case 7: o.kind = OP_DESTROY_WATCHED; o.a[0] = rng.below(4); break;
        case 8: o.kind = OP_RELEASE_MON; o.a[0] = rng.below(4); break;
        default: o.kind = OP_DROP_MOCK_REF; o.a[0] = rng.below(4); o.a[1] = rng.below(2); break;
      }
      p.tasks[static_cast<size_t>(t)].push_back(o);
    }
    // often a task lets go of the mocks before its scope unwinds (its expectations are then released after the drop)
    if (rng.chance(2, 3)) for (int m = 0; m < nmocks; ++m) { Op o; o.kind = OP_DROP_MOCK_REF; o.a[0] = 0; o.a[1] = 1; p.tasks[static_cast<size_t>(t)].push_back(o); }
  }
  return p;
}

// ---------------- one Mode T run ----------------
TResult run_modet(const Plan& plan) {
  TResult R;
  World W;
  W.ntasks = plan.cfg.ntasks;
  W.tasks.resize(static_cast<size_t>(W.ntasks) + 1);
  for (int t = 0; t <= W.ntasks; ++t) W.tasks[static_cast<size_t>(t)].id = t;
  W.exps.resize(static_cast<size_t>(MAXT) * EXP_PER_TASK);
  W.mons.resize(static_cast<size_t>(MAXT) * MON_PER_TASK);
  W.watched.assign(static_cast<size_t>(MAXT) * W_PER_TASK, nullptr);
  TaskCtx& C = W.tasks[static_cast<size_t>(W.ntasks)];
  // reporter: records into the Obs of the operation running on the calling thread
  trompeloeil::set_reporter(
      [](trompeloeil::severity s, char const* file, unsigned long line, std::string const& msg) {
        bool fatal = s == trompeloeil::severity::fatal;
        if (t_task && t_task->cur) t_task->cur->reports.push_back(RawReport{0, fatal, file ? file : "", line, msg});
        if (fatal) throw fatal_report{};
      },
      [](char const* msg) { if (t_task && t_task->cur) t_task->cur->oks.push_back(RawOk{0, msg ? msg : ""}); });
  t_task = &C; t_sink = &C;
  sched_reset(plan.seed, W.ntasks, plan.cfg.policy, plan.cfg.policy_param);
  if (!plan.schedule.empty()) sched_set_explicit(plan.schedule.data(), static_cast<int>(plan.schedule.size()));
  // ---- setup ----
  for (auto& op : plan.setup) {
    if (op.kind == OP_NEW_MOCK) W.mocks.push_back(std::make_shared<MockBox>(op.a[0] & 1));
    else if (op.kind == OP_NEW_SEQ) W.seqs.push_back(std::unique_ptr<trompeloeil::sequence>(new trompeloeil::sequence));
    else if (op.kind == OP_PUSH_TRACER && !W.tracer) W.tracer.reset(new TTracer);
  }
  W.task_refs.assign(static_cast<size_t>(W.ntasks) + 1, W.mocks);
  for (int t = 0; t <= W.ntasks; ++t) for (size_t m = 0; m < W.mocks.size(); ++m) W.tasks[static_cast<size_t>(t)].held_mocks.push_back(static_cast<int>(m));
  for (auto& op : plan.setup) if (op.kind == OP_EXPECT) exec_op(W, C, op, false);
  // watched objects and destruction requirements created before the tasks start, then handed to (different) tasks:
  // the object is destroyed by one task while another owns, queries and releases the requirement
  for (auto& op : plan.setup) if (op.kind == OP_NEW_WATCHED) exec_op(W, C, op, false);
  {
    std::vector<std::pair<int, int>> mon_owner;   // (monitor id, owner task)
    for (auto& op : plan.setup) if (op.kind == OP_REQ_DESTRUCTION) {
      size_t before = C.own_mons.size();
      exec_op(W, C, op, false);
      if (C.own_mons.size() > before) mon_owner.push_back({C.own_mons.back(), ((op.a[3] % W.ntasks) + W.ntasks) % W.ntasks});
    }
    size_t k = 0;
    for (auto& op : plan.setup) if (op.kind == OP_NEW_WATCHED && k < C.own_watched.size()) {
      int owner = ((op.a[2] % W.ntasks) + W.ntasks) % W.ntasks;
      W.tasks[static_cast<size_t>(owner)].own_watched.push_back(C.own_watched[k++]);
    }
    C.own_watched.clear();
    for (auto& mo : mon_owner) W.tasks[static_cast<size_t>(mo.second)].own_mons.push_back(mo.first);
    C.own_mons.clear();
  }
  size_t setup_recs = C.recs.size();
  for (int t = 0; t < W.ntasks; ++t) W.tasks[static_cast<size_t>(t)].plan = plan.tasks[static_cast<size_t>(t)];
  // the controller keeps no reference during the concurrent phase: the task that drops the last one destroys the mock
  // there and then, concurrently with whatever the other tasks still do with expectations attached to it
  W.mocks.clear();
  for (auto& r : W.task_refs[static_cast<size_t>(W.ntasks)]) r.reset();
  C.held_mocks.clear();
  // ---- concurrent phase ----
  {
    std::vector<std::thread> th;
    for (int t = 0; t < W.ntasks; ++t) th.emplace_back(task_main, &W, t);
    sched_run_all();
    R.sched_status = sched_status();
    if (R.sched_status != SCHED_OK) return R;   // threads are parked for ever: the caller must _exit
    for (auto& x : th) x.join();
  }
  t_task = &C; t_sink = &C;
  // ---- teardown by the controller, recorded and checked like everything else ----
  while (!C.own_exps.empty()) { Op r; r.kind = OP_RELEASE; r.a[0] = static_cast<int>(C.own_exps.size()) - 1; exec_op(W, C, r, false); }
  while (!C.held_mocks.empty()) { Op r; r.kind = OP_DROP_MOCK_REF; r.a[0] = 0; r.a[1] = 1; exec_op(W, C, r, false); }
  for (int t = 0; t < W.ntasks; ++t) {
    TaskCtx& T = W.tasks[static_cast<size_t>(t)];
    t_task = &T; t_sink = &T;
    while (!T.own_watched.empty()) { Op r; r.kind = OP_DESTROY_WATCHED; r.a[0] = 0; exec_op(W, T, r, false); }
    while (!T.held_mocks.empty()) { Op r; r.kind = OP_DROP_MOCK_REF; r.a[0] = 0; r.a[1] = 1; exec_op(W, T, r, false); }
  }
  t_task = &C; t_sink = &C;
  const bool had_tracer = W.tracer != nullptr;
  const long traced = had_tracer ? static_cast<long>(W.tracer->log.size()) : 0;
  W.tracer.reset();
  {
    Obs o; C.cur = &o;
    W.seqs.clear();
    C.cur = nullptr;
    R.teardown_seq_reports = static_cast<int>(o.reports.size());
  }
  t_task = nullptr; t_sink = nullptr;
  R.decisions = sched_stat(0); R.switches = sched_stat(1); R.blocked = sched_stat(2); R.stalls = sched_stat(3); R.lock_acqs = sched_stat(4);
  { int buf[SCHED_MAX_DECISIONS]; int n = sched_decisions(buf, SCHED_MAX_DECISIONS); R.schedule.assign(buf, buf + (n < SCHED_MAX_DECISIONS ? n : SCHED_MAX_DECISIONS)); }
  R.trace_hash = sched_trace_hash();

  // ---- history -> checker ----
  LinChecker L; L.ntasks = W.ntasks;
  LinState S;
  S.M.mocks.resize(plan.setup.size());  // upper bound, trimmed below
  size_t nm = 0, ns = 0;
  for (auto& op : plan.setup) { if (op.kind == OP_NEW_MOCK) ++nm; if (op.kind == OP_NEW_SEQ) ++ns; }
  S.M.mocks.assign(nm, MMock()); for (size_t i = 0; i < nm; ++i) { S.M.mocks[i].id = static_cast<int>(i); S.refs[static_cast<int>(i)] = W.ntasks; }
  S.M.seqs.assign(ns, MSeq()); for (size_t i = 0; i < ns; ++i) S.M.seqs[i].id = static_cast<int>(i);
  S.M.exps.assign(static_cast<size_t>(MAXT) * EXP_PER_TASK, MExp()); for (auto& e : S.M.exps) e.alive = false;
  S.M.mons.assign(static_cast<size_t>(MAXT) * MON_PER_TASK, MMon()); for (auto& m : S.M.mons) m.alive = false;
  S.M.watched.assign(static_cast<size_t>(MAXT) * W_PER_TASK, MWatched()); for (auto& w : S.M.watched) w.alive = false;
  // order: setup ops (sequential), then the concurrent ops, then teardown ops (sequential, stamps continue to grow)
  for (size_t i = 0; i < setup_recs; ++i) L.ops.push_back(C.recs[i]);
  for (int t = 0; t < W.ntasks; ++t) for (auto& r : W.tasks[static_cast<size_t>(t)].recs) L.ops.push_back(r);
  for (size_t i = setup_recs; i < C.recs.size(); ++i) L.ops.push_back(C.recs[i]);
  // the controller's ops carry task id ntasks; its teardown ops must follow its setup ops in program order: renumber idx
  R.nops = static_cast<int>(L.ops.size());
  long overl = 0;
  for (size_t i = 0; i < L.ops.size(); ++i) for (size_t j = i + 1; j < L.ops.size(); ++j)
    if (L.ops[i].task != L.ops[j].task && L.ops[i].invoke < L.ops[j].response && L.ops[j].invoke < L.ops[i].response) ++overl;
  R.overlapping_pairs = overl;
  for (int t = 0; t < W.ntasks; ++t) { R.f_clause_throw += W.tasks[static_cast<size_t>(t)].f_clause_throw; R.f_stall += W.tasks[static_cast<size_t>(t)].f_stall; }
  long accepted = 0, oks = 0, rejected = 0;
  for (auto& o : L.ops) if (o.kind == OP_CALL) { if (o.obs.outcome == OC_THREW_FATAL) ++rejected; else ++accepted; oks += static_cast<long>(o.obs.oks.size()); }
  R.calls_accepted = accepted; R.calls_rejected = rejected;
  if (globals().verbose) {
    for (auto& o : L.ops) {
      std::ostringstream os;
      os << "t" << o.task << '#' << o.idx << ' ' << op_name(o.kind) << " mock=" << o.mock << " exp=" << o.exp << " seq=" << o.seq << " w=" << o.watched << " mon=" << o.mon
         << " fn=" << o.fn << " args=" << o.args[0] << ',' << o.args[1] << " shape=" << o.shape << " last_ref=" << o.last_ref << " [" << o.invoke << ".." << o.response << "] cs=";
      for (auto c : o.cs) os << c << ' ';
      os << "-> " << outcome_name(o.obs.outcome) << ' ' << o.obs.value << ' ' << o.obs.flag << o.obs.flag2 << " oks=" << o.obs.oks.size();
      for (auto& r : o.obs.reports) { std::string m = r.msg; for (auto& ch : m) if (ch == '\n') ch = '|'; os << " REPORT{" << m.substr(0, 160) << '}'; }
      std::fprintf(stderr, "  | %s\n", os.str().c_str());
    }
  }
  L.tracer_alive = had_tracer;
  L.debug = globals().verbose;
  { static const bool nh = std::getenv("SIM_LIN_NOHINT") != nullptr; L.no_hint = nh; }
  LinResult lr = L.check(S);
  R.lin_verdict = lr.verdict; R.lin_text = lr.text; R.lin_nodes = lr.nodes; R.lin_by_hint = lr.by_hint;
  // (a call rejected as forbidden or out of sequence has a handler and is traced as well, with the reporter's exception:
  //  the per-operation rule in lin.hpp fixes the accepted calls only; here: no record outside the call that caused it)
  long attributed = 0;
  for (auto& o : L.ops) attributed += static_cast<long>(o.obs.traces.size());
  if (had_tracer && traced != attributed && lr.verdict == 1) { R.lin_verdict = 0; R.lin_text = "conservation: the tracer holds " + std::to_string(traced) + " records but " + std::to_string(attributed) + " were delivered during mock calls"; }
  else if (accepted != oks && lr.verdict == 1) { R.lin_verdict = 0; R.lin_text = "conservation: " + std::to_string(accepted) + " accepted calls but " + std::to_string(oks) + " OK reports"; }
  // history fingerprint and hash
  {
    std::ostringstream os;
    for (auto& o : L.ops) { os << o.task << ':' << op_name(o.kind) << ':' << outcome_name(o.obs.outcome) << ':' << o.obs.value << ':' << o.obs.reports.size() << ':' << o.obs.flag << o.obs.flag2 << ':' << o.cs.size() << ';'; }
    std::string s = os.str();
    R.log_hash = fnv1a(R.trace_hash, s.data(), s.size());
    std::ostringstream fp;
    for (auto& o : L.ops) fp << static_cast<char>('a' + o.kind);
    fp << '|' << W.ntasks;
    std::string f = fp.str();
    R.fp_hash = fnv1a(0xcbf29ce484222325ULL, f.data(), f.size());
  }
  // ---- races captured by the TSan hook ----
#ifdef SIM_TSAN_BUILD
  for (int i = 0; i < sched_race_count(); ++i) {
    TRace tr; tr.desc = sched_race_desc(i) ? sched_race_desc(i) : "";
    bool lib = false;
    for (int wch = 0; wch < 2; ++wch) {
      void* pcs[RACE_DEPTH]; int n = sched_race_stack(i, wch, pcs, RACE_DEPTH);
      std::string st;
      for (int k = 0; k < n; ++k) {
        char buf[4096];
        __sanitizer_symbolize_pc(pcs[k], "%f %s:%l", buf, sizeof buf);
        std::string fr = buf;
        if (fr.find("/include/trompeloeil/") != std::string::npos || fr.compare(0, 13, "trompeloeil::") == 0) { lib = true; if (tr.lib_frame.empty()) { tr.lib_frame = fr; } }
        if (fr.size() > 300) fr = fr.substr(0, 140) + " ... " + fr.substr(fr.size() - 120);
        if (!st.empty() && st.size() >= fr.size() + 4 && st.compare(st.size() - fr.size() - 4, fr.size(), fr) == 0) continue;  // inlined duplicates
        st += fr; st += " <- ";
      }
      tr.stacks[wch] = st;
    }
    tr.in_library = lib;
    R.races.push_back(tr);
  }
  sched_race_clear();
#endif
  return R;
}

}  // namespace sim
