// Plans: the explicit description of one simulated run (DESIGN.md 3.3, 4).
// A plan is everything a run executes: per task a list of operations whose targets are
// interpreted modulo the live population, faults attached to the operation they hit,
// and (Mode T) the explicit schedule. Replay files are this structure written out as text.
#pragma once
#include <cstdio>
#include <cstring>
#include <sstream>
#include <string>
#include <vector>

namespace sim {

enum OpKind {
  OP_NEW_MOCK, OP_DESTROY_MOCK, OP_MOVE_MOCK,
  OP_NEW_SEQ, OP_MOVE_SEQ, OP_DESTROY_SEQ,
  OP_EXPECT, OP_RELEASE, OP_ABANDON,
  OP_CALL,
  OP_Q_SAT, OP_Q_COMPLETED,
  OP_NEW_WATCHED, OP_DESTROY_WATCHED, OP_COPY_WATCHED, OP_MOVECONS_WATCHED, OP_ASSIGN_WATCHED,
  OP_REQ_DESTRUCTION, OP_RELEASE_MON,
  OP_PUSH_TRACER, OP_POP_TRACER, OP_SET_REPORTER, OP_MUTATE,
  OP_DROP_MOCK_REF,  // Mode T: drop this task's shared_ptr to a mock (last owner destroys)
  OP_BARRIER,        // Mode T: all tasks meet; task 0 of the barrier performs the nested ops alone
  OP_CO_CALL, OP_CO_RESUME, OP_CO_DESTROY,
  OP_END_SCOPE,      // the innermost C++ scope holding a scoped expectation ends (LIFO)
  OP_UNWIND,         // an exception leaves every open scope: the scoped expectations die during stack unwinding
  OP_ASSIGN_SEQ,     // a fresh sequence is move-assigned over a live one (the overwritten one ends like a destroyed one)
  OP_WIDE,           // C09: one call of a generated mock function of arity 0..15 with every passing mode
  OP_NOP,
  OP_KIND_COUNT
};

inline const char* op_name(int k) {
  static const char* n[] = {
    "new_mock", "destroy_mock", "move_mock", "new_seq", "move_seq", "destroy_seq",
    "expect", "release", "abandon", "call", "q_sat", "q_completed",
    "new_watched", "destroy_watched", "copy_watched", "movecons_watched", "assign_watched",
    "req_destruction", "release_mon", "push_tracer", "pop_tracer", "set_reporter", "mutate",
    "drop_mock_ref", "barrier", "co_call", "co_resume", "co_destroy", "end_scope", "unwind", "assign_seq", "wide", "nop"};
  return (k >= 0 && k < OP_KIND_COUNT) ? n[k] : "?";
}
inline int op_kind_from_name(const char* s) {
  for (int k = 0; k < OP_KIND_COUNT; ++k) if (!std::strcmp(s, op_name(k))) return k;
  return -1;
}

enum FaultKind { FK_NONE = 0, FK_THROW = 1 };

constexpr int OP_ARGS = 10;

struct NestedOp;
struct Op {
  int kind = OP_NOP;
  int a[OP_ARGS] = {0, 0, 0, 0, 0, 0, 0, 0, 0, 0};
  int fault = FK_NONE;   // FK_THROW: the clause at action index fault_at throws sim::clause_fault
  int fault_at = 0;
  int stall = 0;         // Mode T: scheduler decisions this task is unschedulable for at its first clause point
  // operations executed re-entrantly from inside the action with index .first of the handling expectation
  std::vector<NestedOp> nested;
  Op();
  Op(const Op&);
  Op(Op&&) noexcept;
  Op& operator=(const Op&);
  Op& operator=(Op&&) noexcept;
  ~Op();
};
struct NestedOp { int first; Op second; };
inline Op::Op() = default;
inline Op::Op(const Op&) = default;
inline Op::Op(Op&&) noexcept = default;
inline Op& Op::operator=(const Op&) = default;
inline Op& Op::operator=(Op&&) noexcept = default;
inline Op::~Op() = default;

// field meanings (selectors are taken modulo the live population of the kind):
//  new_mock        a0 kind (0 = MockT<false>, 1 = MockT<true>, 2 = deathwatched<MockT<false>>)
//  destroy_mock    a0 mock
//  move_mock       a0 mock (next movable at or after the selection)
//  move_seq/destroy_seq   a0 sequence
//  expect          a0 shape, a1 mock, a2..a4 operands v0..v2, a5 lo, a6 hi, a7 seq rotation, a8 bit0 seq reversal, bit1 scoped form, a9 actor
//  release         a0 expectation
//  abandon         a0 actor
//  call            a0 mock, a1 fn, a2 arg0, a3 arg1
//  q_sat           a0 expectation (observes is_satisfied and is_saturated)
//  q_completed     a0 sequence
//  new_watched     a0 kind (0 Plain)
//  destroy/copy/movecons_watched a0 watched;  assign_watched a0 dst a1 src a2 (0 copy-assign, 1 move-assign)
//  req_destruction a0 watched, a1 nseq (0..2), a7 seq rotation, a9 actor
//  release_mon     a0 monitor
//  push_tracer     a0 kind (0 recording tracer, 1 stream_tracer)
//  mutate          a0 expectation, a1 new snap value
//  co_*            see coro world

struct Config {
  int profile = 0;
  int mode = 0;            // 0 = H, 1 = T
  int ntasks = 1;
  int policy = 0;          // Mode T scheduling policy
  int policy_param = 0;
  int faults_enabled = 1;  // 0 = fault-free batch
  int deny_mask = 0;       // known-finding patterns that are not generated: 1 multi-monitor, 2 assign-to-watched, 4 destroy referenced sequence
};

struct Plan {
  uint64_t seed = 0;
  Config cfg;
  std::vector<std::vector<Op>> tasks;  // Mode H: one task
  std::vector<Op> setup;               // Mode T: executed by the controller before the tasks start
  std::vector<int> schedule;           // Mode T: explicit decisions (index into runnable set), empty = draw from PRNG
};

inline void write_op(std::ostream& os, const Op& op, int depth, int at) {
  os << "op " << depth << ' ' << at << ' ' << op_name(op.kind);
  for (int i = 0; i < OP_ARGS; ++i) os << ' ' << op.a[i];
  os << ' ' << op.fault << ' ' << op.fault_at << ' ' << op.stall << '\n';
  for (auto& n : op.nested) write_op(os, n.second, depth + 1, n.first);
}

inline std::string plan_to_text(const Plan& p) {
  std::ostringstream os;
  os << "seed " << p.seed << '\n';
  os << "cfg " << p.cfg.profile << ' ' << p.cfg.mode << ' ' << p.cfg.ntasks << ' ' << p.cfg.policy << ' '
     << p.cfg.policy_param << ' ' << p.cfg.faults_enabled << ' ' << p.cfg.deny_mask << '\n';
  os << "setup\n";
  for (auto& op : p.setup) write_op(os, op, 0, 0);
  for (size_t t = 0; t < p.tasks.size(); ++t) {
    os << "task " << t << '\n';
    for (auto& op : p.tasks[t]) write_op(os, op, 0, 0);
  }
  os << "sched";
  for (int d : p.schedule) os << ' ' << d;
  os << '\n';
  os << "end\n";
  return os.str();
}

// returns false on malformed input
inline bool plan_from_text(std::istream& is, Plan& p) {
  std::string line;
  std::vector<Op>* cur = nullptr;
  std::vector<Op*> stack;  // stack[d] = last op at depth d
  bool seen_end = false;
  while (std::getline(is, line)) {
    if (line.empty() || line[0] == '#') continue;
    std::istringstream ls(line);
    std::string tok;
    ls >> tok;
    if (tok == "seed") { ls >> p.seed; }
    else if (tok == "cfg") {
      ls >> p.cfg.profile >> p.cfg.mode >> p.cfg.ntasks >> p.cfg.policy >> p.cfg.policy_param >> p.cfg.faults_enabled;
      if (!(ls >> p.cfg.deny_mask)) p.cfg.deny_mask = 0;
    }
    else if (tok == "setup") { cur = &p.setup; stack.clear(); }
    else if (tok == "task") {
      size_t t; ls >> t;
      if (p.tasks.size() <= t) p.tasks.resize(t + 1);
      cur = &p.tasks[t]; stack.clear();
    }
    else if (tok == "op") {
      int depth, at; std::string name;
      ls >> depth >> at >> name;
      Op op;
      op.kind = op_kind_from_name(name.c_str());
      if (op.kind < 0) return false;
      for (int i = 0; i < OP_ARGS; ++i) ls >> op.a[i];
      ls >> op.fault >> op.fault_at >> op.stall;
      if (!ls) return false;
      if (depth == 0) {
        if (!cur) return false;
        cur->push_back(op);
        // pointers into a growing vector are refreshed each time: only the last element is ever addressed
        stack.assign(1, &cur->back());
      } else {
        if (static_cast<int>(stack.size()) < depth) return false;
        Op* parent = stack[depth - 1];
        parent->nested.push_back({at, op});
        stack.resize(depth);
        stack.push_back(&parent->nested.back().second);
      }
    }
    else if (tok == "sched") { int d; while (ls >> d) p.schedule.push_back(d); }
    else if (tok == "end") { seen_end = true; break; }
    else { /* meta lines (property, oracle, violation, hash ...) are ignored here */ }
  }
  return seen_end;
}

}  // namespace sim
