# Builds the simulator binaries against $(VERIF_REPO)/include (default /repo/include), i.e. the current working tree.
VERIF_REPO ?= /repo
INC := $(VERIF_REPO)/include
B ?= build
CXX := clang++
GEN := $(B)/gen
HDRS := $(shell find $(INC) -name '*.hpp') $(wildcard sim/*.hpp)
NTU := 16
SHAPE_SRCS := $(foreach k,$(shell seq 0 15),$(GEN)/shapes_$(k).cpp) $(GEN)/shape_table.cpp
EXEC_SRCS := sim/exec_a.cpp sim/exec_b.cpp sim/exec_c.cpp sim/exec_d.cpp sim/main.cpp

HFLAGS := -std=c++14 -O0 -g -fno-omit-frame-pointer -fsanitize=address,undefined -fno-sanitize-recover=undefined -DTROMPELOEIL_SANITY_CHECKS -I$(INC) -Isim -Wno-unused-value
H_OBJS := $(patsubst $(GEN)/%.cpp,$(B)/H/%.o,$(SHAPE_SRCS)) $(patsubst sim/%.cpp,$(B)/H/%.o,$(EXEC_SRCS))

all: $(B)/simH

$(GEN)/stamp: tools/gen_shapes.py
	@mkdir -p $(GEN)
	python3 tools/gen_shapes.py $(GEN) > /dev/null
	@touch $@
$(SHAPE_SRCS): $(GEN)/stamp

$(B)/H/%.o: $(GEN)/%.cpp $(HDRS) $(GEN)/stamp
	@mkdir -p $(B)/H
	$(CXX) $(HFLAGS) -c $< -o $@
$(B)/H/%.o: sim/%.cpp $(HDRS) $(GEN)/stamp
	@mkdir -p $(B)/H
	$(CXX) $(HFLAGS) -c $< -o $@
$(B)/simH: $(H_OBJS)
	$(CXX) $(HFLAGS) $^ -o $@

clean:
	rm -rf $(B)
.PHONY: all clean
