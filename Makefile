# Builds the simulator binaries against $(VERIF_REPO)/include (default /repo/include), i.e. the current working tree.
VERIF_REPO ?= /repo
INC := $(VERIF_REPO)/include
B ?= build
CXX := clang++
GEN := $(B)/gen
HDRS := $(shell find $(INC) -name '*.hpp') $(wildcard sim/*.hpp)
NTU := 16
SHAPE_SRCS := $(foreach k,$(shell seq 0 15),$(GEN)/shapes_$(k).cpp) $(GEN)/shape_table.cpp
EXEC_SRCS := sim/exec_a.cpp sim/exec_b.cpp sim/exec_c.cpp sim/exec_d.cpp sim/main.cpp

HFLAGS := -std=c++14 -O0 -g -fno-omit-frame-pointer -fsanitize=address,undefined -fno-sanitize-recover=undefined -DTROMPELOEIL_SANITY_CHECKS -I$(INC) -Isim -Wno-unused-value
H_OBJS := $(patsubst $(GEN)/%.cpp,$(B)/H/%.o,$(SHAPE_SRCS)) $(patsubst sim/%.cpp,$(B)/H/%.o,$(EXEC_SRCS)) $(B)/H/wide.o

all: $(B)/simH $(B)/simT $(B)/simTa $(B)/simC $(B)/simTc

$(GEN)/stamp: tools/gen_shapes.py
	@mkdir -p $(GEN)
	python3 tools/gen_shapes.py $(GEN) > /dev/null
	@touch $@
$(SHAPE_SRCS) $(GEN)/wide.cpp: $(GEN)/stamp

$(B)/H/%.o: $(GEN)/%.cpp $(HDRS) $(GEN)/stamp
	@mkdir -p $(B)/H
	$(CXX) $(HFLAGS) -c $< -o $@
$(B)/H/%.o: sim/%.cpp $(HDRS) $(GEN)/stamp
	@mkdir -p $(B)/H
	$(CXX) $(HFLAGS) -c $< -o $@
# MockWide (C09): if the generated family does not compile against the current headers, keep the compiler's words
# for C09's check and link a stub so that every other property can still be decided
$(B)/H/wide.o: $(GEN)/wide.cpp sim/wide_stub.cpp $(HDRS) $(GEN)/stamp
	@mkdir -p $(B)/H
	@rm -f $(B)/wide_failed.txt
	@$(CXX) $(HFLAGS) -c $(GEN)/wide.cpp -o $@ 2> $(B)/wide_compile.err || ( (echo "command: $(CXX) $(HFLAGS) -c $(GEN)/wide.cpp"; grep -m 12 -E "error|note: in instantiation" $(B)/wide_compile.err) > $(B)/wide_failed.txt; $(CXX) $(HFLAGS) -c sim/wide_stub.cpp -o $@ )
$(B)/simH: $(H_OBJS)
	$(CXX) $(HFLAGS) $^ -o $@

clean:
	rm -rf $(B)
.PHONY: all clean

# ---- Mode T: the scheduler TU is compiled WITHOUT sanitizer instrumentation (DESIGN.md 3.4) ----
T_SRCS := sim/exec_a.cpp sim/exec_b.cpp sim/exec_c.cpp sim/exec_d.cpp sim/main.cpp sim/modet.cpp sim/wide_stub.cpp
WRAP := -Wl,--wrap=pthread_mutex_lock -Wl,--wrap=pthread_mutex_unlock -pthread
TFLAGS := -std=c++14 -O1 -g -fno-omit-frame-pointer -fsanitize=thread -DSIM_MODE_T -I$(INC) -Isim -Wno-unused-value -pthread
T_OBJS := $(patsubst $(GEN)/%.cpp,$(B)/T/%.o,$(SHAPE_SRCS)) $(patsubst sim/%.cpp,$(B)/T/%.o,$(T_SRCS))
$(B)/T/%.o: $(GEN)/%.cpp $(HDRS) $(GEN)/stamp
	@mkdir -p $(B)/T
	$(CXX) $(TFLAGS) -c $< -o $@
$(B)/T/%.o: sim/%.cpp $(HDRS) $(GEN)/stamp
	@mkdir -p $(B)/T
	$(CXX) $(TFLAGS) -c $< -o $@
$(B)/T/sched.o: sim/sched.cpp sim/sched.hpp
	@mkdir -p $(B)/T
	$(CXX) -std=c++14 -O1 -g -DSIM_TSAN -c $< -o $@
$(B)/simT: $(T_OBJS) $(B)/T/sched.o
	$(CXX) $(TFLAGS) $(WRAP) $^ -o $@

TAFLAGS := -std=c++14 -O0 -g -fno-omit-frame-pointer -fsanitize=address,undefined -fno-sanitize-recover=undefined -DTROMPELOEIL_SANITY_CHECKS -DSIM_MODE_T -I$(INC) -Isim -Wno-unused-value -pthread
TA_OBJS := $(patsubst $(GEN)/%.cpp,$(B)/H/%.o,$(SHAPE_SRCS)) $(B)/TA/wide_stub.o $(B)/H/exec_a.o $(B)/H/exec_b.o $(B)/H/exec_c.o $(B)/H/exec_d.o $(B)/TA/main.o $(B)/TA/modet.o
$(B)/TA/%.o: sim/%.cpp $(HDRS) $(GEN)/stamp
	@mkdir -p $(B)/TA
	$(CXX) $(TAFLAGS) -c $< -o $@
$(B)/TA/sched.o: sim/sched.cpp sim/sched.hpp
	@mkdir -p $(B)/TA
	$(CXX) -std=c++14 -O1 -g -c $< -o $@
$(B)/simTa: $(TA_OBJS) $(B)/TA/sched.o
	$(CXX) $(TAFLAGS) $(WRAP) $^ -o $@

# ---- coroutine world (C20): C++20 ----
CFLAGS20 := -std=c++20 -O0 -g -fno-omit-frame-pointer -fsanitize=address,undefined -fno-sanitize-recover=undefined -DTROMPELOEIL_SANITY_CHECKS -I$(INC) -Isim -Wno-unused-value
$(B)/simC: sim/coro_main.cpp $(HDRS)
	@mkdir -p $(B)
	$(CXX) $(CFLAGS20) $< -o $@

# ---- Mode T with the library's custom-mutex customisation point (thorough tier of C12) ----
TCFLAGS := $(TFLAGS) -DTROMPELOEIL_CUSTOM_RECURSIVE_MUTEX -DSIM_BINARY_NAME='"simTc"'
TC_OBJS := $(patsubst $(GEN)/%.cpp,$(B)/TC/%.o,$(SHAPE_SRCS)) $(patsubst sim/%.cpp,$(B)/TC/%.o,$(T_SRCS))
$(B)/TC/%.o: $(GEN)/%.cpp $(HDRS) $(GEN)/stamp
	@mkdir -p $(B)/TC
	$(CXX) $(TCFLAGS) -c $< -o $@
$(B)/TC/%.o: sim/%.cpp $(HDRS) $(GEN)/stamp
	@mkdir -p $(B)/TC
	$(CXX) $(TCFLAGS) -c $< -o $@
$(B)/simTc: $(TC_OBJS) $(B)/T/sched.o
	$(CXX) $(TCFLAGS) $(WRAP) $^ -o $@
