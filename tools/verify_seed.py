#!/usr/bin/env python3
"""Confirm one seeded change independently and file it under /verif/seeded/<id>/.

  verify_seed.py <property> <n> <source-dir with patch.diff[, patch.ported.diff], demo.cpp, notes.md>

In a scratch worktree of /repo's HEAD (outside /repo and /verif, removed afterwards): apply the patch, rebuild the
repository's unedited test suite and run it, build the demonstration against the patched and the unpatched headers.
The change is kept only if the suite still passes, the demo fails with the change and passes without it.
"""
import fcntl
import json
import os
import shutil
import subprocess
import sys
import tempfile

ROOT = os.path.dirname(os.path.dirname(os.path.abspath(__file__)))


def sh(cmd, cwd=None, timeout=1800):
    p = subprocess.run(cmd, shell=True, cwd=cwd, stdout=subprocess.PIPE, stderr=subprocess.STDOUT, text=True, timeout=timeout)
    return p.returncode, p.stdout


def main():
    prop, n, src = sys.argv[1], sys.argv[2], sys.argv[3]
    sid = '%s-%s' % (prop, n)
    out = os.path.join(ROOT, 'seeded', sid)
    wt = tempfile.mkdtemp(prefix='vseed-%s-' % sid, dir='/tmp')
    os.rmdir(wt)
    meta = {'id': sid, 'property': prop, 'source': 'independent sub-agent given only the property text and its own worktree'}
    try:
        with open('/tmp/vseed.lock', 'w') as lk:
            fcntl.flock(lk, fcntl.LOCK_EX)
            rc, o = sh('git -C /repo worktree add --detach %s HEAD' % wt)
        assert rc == 0, o
        patch = os.path.join(src, 'patch.ported.diff') if os.path.exists(os.path.join(src, 'patch.ported.diff')) else os.path.join(src, 'patch.diff')
        rc, o = sh('git apply %s || patch -p1 -F3 -s < %s' % (patch, patch), cwd=wt)
        meta['applied_with'] = 'git apply' if 'FAILED' not in o and rc == 0 else 'failed'
        if rc != 0:
            meta['status'] = 'patch does not apply to the current tree: ' + o[-400:]
            print(sid, meta['status']); return 1
        sh("find . -name '*.rej' -o -name '*.orig' | xargs rm -f", cwd=wt)
        rc, diff = sh('git diff', cwd=wt)
        head = sh('git -C /repo rev-parse --short HEAD')[1].strip()
        meta['repo_head'] = head
        rc, o = sh('cmake -G Ninja -S . -B _build -DCMAKE_BUILD_TYPE=RelWithDebInfo -DTROMPELOEIL_BUILD_TESTS=ON -DCMAKE_CXX_FLAGS=-Wno-error > /dev/null 2>&1 && cmake --build _build -j4 2>&1 | tail -3', cwd=wt)
        rc1, o1 = sh('./_build/test/self_test | tail -2', cwd=wt)
        rc2, _ = sh('./_build/test/thread_terror > /dev/null 2>&1', cwd=wt)
        rc3, _ = sh('./_build/test/custom_recursive_mutex > /dev/null 2>&1', cwd=wt)
        suite_ok = 'All tests passed (1355 assertions in 601 test cases)' in o1 and rc2 == 0 and rc3 == 0
        meta['suite_with_change'] = o1.strip().splitlines()[-1] if o1.strip() else 'no output'
        meta['thread_terror_rc'] = rc2; meta['custom_recursive_mutex_rc'] = rc3
        # demo
        std = 'c++20' if prop == 'C20' else 'c++14'
        variants = [('g++ -std=%s -O0 -pthread' % std, 'plain')]
        if prop in ('C12',):
            variants.append(('clang++ -std=%s -O1 -g -fsanitize=thread -pthread' % std, 'tsan'))
        if prop in ('C14', 'C13', 'C20'):
            variants.append(('clang++ -std=%s -O0 -g -fsanitize=address,undefined -pthread' % std, 'asan'))
        demo = os.path.join(src, 'demo.cpp')
        demo_ok = False
        for cc, name in variants:
            rca, oa = sh('%s -I%s/include %s -o %s/demo_patched 2>&1 | tail -3; %s/demo_patched > /dev/null 2>&1; echo rc=$?' % (cc, wt, demo, wt, wt), timeout=900)
            rcb, ob = sh('%s -I/repo/include %s -o %s/demo_orig 2>&1 | tail -3; %s/demo_orig > /dev/null 2>&1; echo rc=$?' % (cc, demo, wt, wt), timeout=900)
            pa = oa.strip().splitlines()[-1]; pb = ob.strip().splitlines()[-1]
            meta['demo_%s' % name] = {'build': cc, 'with_change': pa, 'without_change': pb}
            if pa != 'rc=0' and pb == 'rc=0':
                demo_ok = True; meta['demo_build'] = cc
                break
        meta['confirmed'] = bool(suite_ok and demo_ok)
        if not meta['confirmed']:
            meta['status'] = 'NOT kept: suite_ok=%s demo_ok=%s' % (suite_ok, demo_ok)
            print(sid, meta['status'], json.dumps(meta)[:600]); return 1
        os.makedirs(out, exist_ok=True)
        with open(os.path.join(out, 'patch.diff'), 'w') as f:
            f.write(diff)
        shutil.copy(demo, os.path.join(out, 'demo.cpp'))
        notes = open(os.path.join(src, 'notes.md')).read() if os.path.exists(os.path.join(src, 'notes.md')) else ''
        meta['breaks'] = prop
        meta['needs_to_manifest'] = notes.strip()
        meta['what_was_run'] = ['git worktree of /repo HEAD %s under /tmp, patch applied' % head,
                                'cmake -G Ninja ... -DTROMPELOEIL_BUILD_TESTS=ON; cmake --build; self_test (601 cases), thread_terror, custom_recursive_mutex: all pass with the change',
                                'demo.cpp built against the patched and the unpatched headers: fails with the change, passes without',
                                'worktree and build output removed']
        with open(os.path.join(out, 'meta.json'), 'w') as f:
            json.dump(meta, f, indent=1)
        print(sid, 'confirmed and filed')
        return 0
    finally:
        with open('/tmp/vseed.lock', 'w') as lk:
            fcntl.flock(lk, fcntl.LOCK_EX)
            sh('git -C /repo worktree remove --force %s' % wt)
        shutil.rmtree(wt, ignore_errors=True)


if __name__ == '__main__':
    sys.exit(main())
