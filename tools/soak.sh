#!/bin/sh
# soak: every claimed property's thorough check on the unchanged tree with another seed; prints one line per check
# usage: tools/soak.sh <VERIF_SEED> [tier]
S="${1:-7}"; T="${2:-thorough}"
cd "$(dirname "$0")/.." || exit 2
for P in C01 C02 C03 C04 C05 C06 C07 C08 C09 C12 C13 C14 C15 C16 C17 C20; do
  VERIF_SEED=$S VERIF_BUILD=$PWD/build VERIF_EVIDENCE_DIR=$PWD/evidence-soak python3 tools/check.py --property $P --tier $T 2>&1 | grep -E "VIOLATION|HARNESS|violation:|$P $T" | cut -c1-600
done
