#!/usr/bin/env python3
"""Framework self-test (not a check): the two deciders of the Mode T oracle agree.

The linearizability oracle first replays a history in critical-section order (the hint) and only falls back to the
general search over all orders when that fails or when the stamps do not have the expected shape. On the unchanged tree
the hint nearly always succeeds, so the search is hardly exercised by the checks themselves. Here the hint is switched
off (SIM_LIN_NOHINT=1): every history is decided by the search alone, and it must accept all of them (an inconclusive
search - budget exhausted - is counted, not an error).

Usage: selftest_lin.py [seeds-per-worker]      (default 4000, 16 workers)
"""
import os
import subprocess
import sys
import tempfile
import shutil
from concurrent.futures import ThreadPoolExecutor

ROOT = os.path.dirname(os.path.dirname(os.path.abspath(__file__)))


def main():
    n = int(sys.argv[1]) if len(sys.argv) > 1 else 4000
    build = os.environ.get('VERIF_BUILD', os.path.join(ROOT, 'build'))
    repo = os.environ.get('VERIF_REPO', '/repo')
    subprocess.run(['make', '-C', ROOT, '-j16', 'VERIF_REPO=' + repo, 'B=' + build, os.path.join(build, 'simT')], check=True, stdout=subprocess.DEVNULL)
    out = tempfile.mkdtemp(prefix='linself-', dir='/tmp')
    env = dict(os.environ, SIM_LIN_NOHINT='1')

    def work(k):
        p = subprocess.run([os.path.join(build, 'simT'), 'runT', '--seed-base', str(7000000 + k * n), '--count', str(n), '--out', out],
                           env=env, stdout=subprocess.PIPE, stderr=subprocess.DEVNULL, text=True)
        runs = viol = inconcl = searched = 0
        first = ''
        for l in p.stdout.splitlines():
            if l.startswith('RT '):
                f = l.split()
                runs += 1
                if f[-3] == '2':
                    inconcl += 1
                if f[-1] == '0':
                    searched += 1
            elif l.startswith('V '):
                viol += 1
                first = first or l[:300]
        return runs, viol, inconcl, searched, first, p.returncode

    try:
        with ThreadPoolExecutor(16) as ex:
            res = list(ex.map(work, range(16)))
    finally:
        shutil.rmtree(out, ignore_errors=True)
    runs = sum(r[0] for r in res); viol = sum(r[1] for r in res); inconcl = sum(r[2] for r in res); searched = sum(r[3] for r in res)
    for r in res:
        if r[4]:
            print('  ', r[4])
    print('linearizability self-test: %d histories decided by the general search alone (%d searched), %d rejected, %d inconclusive' % (runs, searched, viol, inconcl))
    return 1 if viol or runs == 0 else 0


if __name__ == '__main__':
    sys.exit(main())
