#!/usr/bin/env python3
"""The command behind every quick/thorough check (DESIGN.md 4, 8).

  check.py --property C05 --tier quick|thorough

build (flock + make) -> fan out seeded worker processes -> classify results -> gate every candidate
(same seed twice, fresh-process replay) -> minimise -> known-findings matching -> evidence -> exit code.
Exit 0: property held on everything explored.  Exit 1: a line "VIOLATION property=<id> replay=<path>".
Exit 2: harness fault (never a verdict).
"""
import argparse
import fcntl
import hashlib
import json
import os
import re
import shutil
import subprocess
import sys
import tempfile
import time
from concurrent.futures import ThreadPoolExecutor

ROOT = os.path.dirname(os.path.dirname(os.path.abspath(__file__)))
REPO = os.environ.get('VERIF_REPO', '/repo')
BUILD = os.environ.get('VERIF_BUILD', os.path.join(ROOT, 'build'))
EVID = os.environ.get('VERIF_EVIDENCE_DIR', os.path.join(ROOT, 'evidence'))
NCPU = min(16, os.cpu_count() or 4)

PROP_BITS = ["C01", "C02", "C03", "C04", "C05", "C06", "C07", "C08", "C09", "C13", "C14", "C15", "C16", "C17", "C20"]

# profiles (share of the budget) per property; the first is the property's own
PROFILES = {
    'C01': [('general', 5), ('lifetime', 2), ('seq', 2), ('forbid', 1), ('clauses', 1)],
    'C02': [('general', 5), ('seq', 4), ('bounds', 2), ('forbid', 1)],
    'C03': [('bounds', 6), ('general', 2), ('seq', 2)],
    'C04': [('lifetime', 6), ('general', 2), ('destroy', 2), ('reports', 1)],
    'C05': [('seq', 7), ('general', 2), ('destroy', 1)],
    'C06': [('seq', 6), ('destroy', 3), ('general', 1)],
    'C07': [('forbid', 7), ('general', 2), ('seq', 1)],
    'C08': [('clauses', 7), ('general', 2), ('trace', 1)],
    'C09': [('clauses', 7), ('general', 2), ('lifetime', 1)],
    'C13': [('watched', 7), ('destroy', 2), ('seq', 1)],
    'C14': [('destroy', 6), ('watched', 2), ('lifetime', 1), ('seq', 1), ('clauses', 1)],
    'C15': [('reports', 5), ('seq', 2), ('forbid', 1), ('watched', 1), ('lifetime', 1)],
    'C16': [('okrep', 6), ('general', 2), ('forbid', 1), ('seq', 1)],
    'C17': [('trace', 7), ('clauses', 2), ('general', 1)],
    'C20': [('coro', 1)],
}

BUDGET_S = {'quick': 30, 'thorough': 540}
CHUNK = {'quick': 250, 'thorough': 1000}

NONTRIVIAL_RULE = {
    'C01': 'a run is non-trivial when it contains at least one mock call',
    'C02': 'a run is non-trivial when at least one call had two or more simultaneously matching live expectations',
    'C03': 'a run is non-trivial when an expectation with non-default or run-time bounds was created or a call met a saturated expectation',
    'C04': 'a run is non-trivial when at least one expectation lifetime ended (release, abandon, mock destruction)',
    'C05': 'a run is non-trivial when a call had a sequenced matching expectation or a sequenced destruction requirement existed',
    'C06': 'a run is non-trivial when is_completed() was compared or a sequence object was destroyed',
    'C07': 'a run is non-trivial when a call was made while a forbidding expectation was live on that function',
    'C08': 'a run is non-trivial when an accepted call had WITH / SIDE_EFFECT / RETURN / THROW clauses to order',
    'C09': 'a run is non-trivial when an accepted call exposed argument addresses / captured locals in a clause',
    'C13': 'a run is non-trivial when a destruction requirement was created or released or a watched object died, was copied or assigned',
    'C14': 'a run is non-trivial when a mock, sequence or watched object was destroyed or moved',
    'C15': 'a run is non-trivial when at least one violation report was produced and checked',
    'C16': 'a run is non-trivial when it contains at least one mock call or a reporter replacement',
    'C17': 'a run is non-trivial when a call was made while a tracer was alive',
    'C20': 'a run is non-trivial when at least one mocked coroutine call was accepted (its coroutine is then resumed in scheduler-chosen order)',
}


def log(*a):
    print(*a, file=sys.stderr, flush=True)


def build(targets=('simH',)):
    os.makedirs(BUILD, exist_ok=True)
    with open(os.path.join(BUILD, '.lock'), 'w') as lk:
        fcntl.flock(lk, fcntl.LOCK_EX)
        r = subprocess.run(['make', '-C', ROOT, '-j%d' % NCPU, 'VERIF_REPO=' + REPO, 'B=' + BUILD] + [os.path.join(BUILD, t) for t in targets], stdout=subprocess.PIPE, stderr=subprocess.STDOUT, text=True)
        if r.returncode != 0:
            log(r.stdout[-6000:])
            log('HARNESS: build failed (the simulator world does not compile against the current headers)')
            sys.exit(2)


def include_hash():
    h = hashlib.sha256()
    inc = os.path.join(REPO, 'include')
    for d, _, fs in sorted(os.walk(inc)):
        for f in sorted(fs):
            p = os.path.join(d, f)
            h.update(p.encode()); h.update(open(p, 'rb').read())
    return h.hexdigest()[:16]


class Result:
    def __init__(self):
        self.runs = 0
        self.ops = 0
        self.fps = set()       # fingerprints of non-trivial runs for the property
        self.nontrivial = 0
        self.viol = []         # (seed, props, oracle, path, text, profile, faults)
        self.foreign = []      # violations owned by other properties
        self.crashes = []      # (seed, profile, faults, kind, frame, file, stderr_tail)
        self.leaks = []
        self.stats = {}
        self.samples = []
        self.hashes = {}
        self.harness = []


def add_stats(tot, s):
    for k, v in s.items():
        if isinstance(v, dict):
            add_stats(tot.setdefault(k, {}), v)
        else:
            tot[k] = tot.get(k, 0) + v


def classify_crash(stderr):
    kind = 'crash'
    m = re.search(r'ERROR: AddressSanitizer: ([\w-]+)', stderr)
    if m:
        kind = 'asan:' + m.group(1)
    elif 'runtime error:' in stderr:
        m = re.search(r'runtime error: ([^\n]{0,60})', stderr)
        kind = 'ubsan:' + (m.group(1) if m else '')
        kind = re.sub(r'0x[0-9a-f]+', 'ADDR', kind)
    elif 'Assertion' in stderr or 'assert' in stderr:
        kind = 'assert'
    frame, ffile = '', ''
    for m in re.finditer(r'#\d+ 0x[0-9a-f]+ in (.+?) (/[^\s:]+):(\d+)', stderr):
        if ('cshape_' in m.group(1) and m.group(2).startswith(os.path.join(ROOT, 'sim') + '/')) or '/build/gen/' in m.group(2):
            continue   # a clause body written by the 'user': the library called it with what it had
        if m.group(2).startswith(os.path.join(ROOT, 'sim') + '/') and 'world.hpp' not in m.group(2):
            # the innermost source frame is harness code: a harness bug, never a verdict
            return 'harness', re.sub(r'<.*', '', m.group(1)).split('(')[0], os.path.basename(m.group(2))
        if '/include/trompeloeil/' in m.group(2):
            fn = re.sub(r'<.*', '', m.group(1))
            frame = fn.split('(')[0]
            ffile = os.path.basename(m.group(2))
            break
    if not frame:
        m = re.search(r'(/[^\s:]*/include/trompeloeil/[^\s:]+):(\d+)', stderr)
        if m:
            ffile = os.path.basename(m.group(1)); frame = 'line'
    return kind, frame, ffile


IDLE_S = 30   # a worker prints and flushes a line before and after every run (milliseconds apart): silence for this long is a hang


def run_worker(cmd):
    """Run one worker process; returns (returncode, stdout, stderr, hung). A worker that stops producing output is killed."""
    import select
    with tempfile.TemporaryFile(mode='w+b') as errf:
        p = subprocess.Popen(cmd, stdout=subprocess.PIPE, stderr=errf)
        fd = p.stdout.fileno()
        chunks = []
        hung = False
        while True:
            r, _, _ = select.select([fd], [], [], IDLE_S)
            if not r:
                hung = True
                p.kill()
                break
            data = os.read(fd, 1 << 16)
            if not data:
                break
            chunks.append(data)
        p.wait()
        errf.seek(0)
        err = errf.read().decode(errors='replace')
    return p.returncode, b''.join(chunks).decode(errors='replace'), err, hung


def run_chunk(binary, profile, faults, base, count, outdir, deny, samples, mode='H', cpu=None):
    """Run seeds [base, base+count); restart after a death. Returns list of parsed events."""
    events = []
    cur = base
    end = base + count
    while cur < end:
        if mode == 'T':
            cmd = [binary, 'runT', '--seed-base', str(cur), '--count', str(end - cur), '--faults', str(faults), '--out', outdir, '--samples', str(samples)]
            if cpu is not None:
                cmd = ['taskset', '-c', str(cpu)] + cmd
        else:
            cmd = [binary, 'run', '--profile', profile, '--seed-base', str(cur), '--count', str(end - cur), '--faults', str(faults), '--out', outdir, '--samples', str(samples)] + deny
        rc, out_text, err_text, hung = run_worker(cmd)
        inflight = None
        term_op = ''
        done = set()
        for line in out_text.splitlines():
            if line.startswith('B '):
                inflight = int(line.split()[1])
            elif line.startswith('R '):
                f = line.split()
                events.append(('R', int(f[1]), f[2], f[3], int(f[4], 16), int(f[5])))
                done.add(int(f[1])); inflight = None
            elif line.startswith('RT '):
                f = line.split()
                events.append(('RT', int(f[1]), f[2], f[3]) + tuple(int(x) for x in f[4:]))
                done.add(int(f[1])); inflight = None
            elif line.startswith('H '):
                events.append(('H', cur, line[:3000]))
            elif line.startswith('V '):
                head, _, text = line.partition(' | ')
                f = head.split()
                events.append(('V', int(f[1]), f[2], f[3], f[4], text, cur))   # (cur: the first seed this worker process ran)
            elif line.startswith('K '):
                f = line.split(); events.append(('K', int(f[1]), int(f[2])))
            elif line.startswith('L '):
                events.append(('L', line))
            elif line.startswith('T '):
                term_op = line.split()[2] if len(line.split()) > 2 else ''

            elif line.startswith('SAMPLE '):
                f = line.split(' ', 2); events.append(('S', int(f[1]), f[2]))
            elif line.startswith('STATES '):
                events.append(('STATES', int(line.split()[1])))
            elif line.startswith('STATS '):
                events.append(('STATS', json.loads(line[6:])))
        if rc == 3 and not hung:   # stopped after a violation: carry on with the next seed
            vseeds = [e[1] for e in events if e[0] == 'V']
            cur = (vseeds[-1] if vseeds else cur) + 1
            continue
        if rc in (0, 1) and not hung:
            break
        if hung:
            if inflight is None:
                events.append(('H', cur, 'worker stopped producing output outside a run'))
                break
            # the run never came back: a loop that does not end or a lock that is never released (C14; in Mode T also C12)
            events.append(('C', inflight, 'hang', 'no output for %d s' % IDLE_S, 'hang', err_text[-2000:]))
            break   # (the rest of this chunk is given up: every further hang would cost another IDLE_S)
        # died
        if inflight is None:
            events.append(('H', cur, 'worker died (rc=%d) outside a run: %s' % (rc, err_text[-2000:])))
            break
        kind, frame, ffile = classify_crash(err_text)
        if kind == 'crash' and rc in (-6, 134):
            kind = 'abort'; frame = frame or 'std::abort without a sanitizer report (e.g. an intrusive list destroyed while elements are still linked)'
        if kind == 'harness':
            events.append(('H', inflight, 'sanitizer error inside the harness at %s (%s), seed %d: %s' % (frame, ffile, inflight, err_text[-1500:])))
            break
        if rc == 78 and kind == 'crash':
            kind = 'terminate'; frame = 'during ' + term_op; ffile = 'terminate'
        events.append(('C', inflight, kind, frame, ffile, err_text[-4000:]))
        cur = inflight + 1
    return events


def replay(binary, path, timeout=IDLE_S):
    try:
        p = subprocess.run([binary, 'replay', path], stdout=subprocess.PIPE, stderr=subprocess.PIPE, text=True, errors='replace', timeout=timeout)
    except subprocess.TimeoutExpired:
        # one plan takes milliseconds: not coming back is the failure itself
        return {'rc': -1, 'kind': 'crash', 'crash': ('hang', 'no output for %d s' % IDLE_S, 'hang'), 'stderr': '', 'props': '', 'oracle': '', 'text': '', 'hash': ''}
    out = {'rc': p.returncode, 'props': '', 'oracle': '', 'text': '', 'hash': '', 'kind': 'ok'}
    for line in p.stdout.splitlines():
        if line.startswith('V '):
            head, _, text = line.partition(' | ')
            f = head.split()
            out.update(props=f[2], oracle=f[3], text=text, kind='violation')
        elif line.startswith('R '):
            out['hash'] = line.split()[2]
    if p.returncode not in (0, 1):
        k, frame, ffile = classify_crash(p.stderr)
        if k == 'crash' and p.returncode in (-6, 134):
            k = 'abort'; frame = frame or 'std::abort without a sanitizer report (e.g. an intrusive list destroyed while elements are still linked)'
        if p.returncode == 78 and k == 'crash':
            k = 'terminate'; ffile = 'terminate'
            m = re.search(r'^T \d+ (\S+)', p.stdout, re.M)
            frame = 'during ' + (m.group(1) if m else '')
        out.update(kind='crash', crash=(k, frame, ffile), stderr=p.stderr[-3000:])
    return out


# ---------- replay files as op trees ----------
def parse_replay(path):
    """head lines, op tree (with 'setup' / 'task N' marker nodes that are never removed), tail lines"""
    head, ops, tail = [], [], []
    section = 'head'
    with open(path) as f:
        for line in f:
            line = line.rstrip('\n')
            if line.startswith('op '):
                depth = int(line.split()[1])
                node = {'line': line, 'kids': []}
                if depth == 0:
                    ops.append(node)
                else:
                    parent = [o for o in ops if not o.get('marker')][-1]
                    for _ in range(depth - 1):
                        parent = parent['kids'][-1]
                    parent['kids'].append(node)
                section = 'ops'
            elif line == 'setup' or line.startswith('task '):
                ops.append({'line': line, 'kids': [], 'marker': True}); section = 'ops'
            elif section == 'ops' and (line.startswith('sched') or line == 'end'):
                tail.append(line); section = 'tail'
            elif section == 'tail':
                tail.append(line)
            else:
                head.append(line)
    return head, ops, tail


def write_replay(path, head, ops, tail, extra=None):
    def emit(n, out):
        out.append(n['line'])
        for k in n['kids']:
            emit(k, out)
    out = list(head)
    if extra:
        out = [l for l in out if not l.startswith(tuple(e.split()[0] + ' ' for e in extra))]
        # keep the comment header first
        out = out[:1] + extra + out[1:]
    for n in ops:
        emit(n, out)
    out += tail
    with open(path, 'w') as f:
        f.write('\n'.join(out) + '\n')


def same_class(res, want):
    if want['kind'] == 'crash':
        return res['kind'] == 'crash' and res['crash'][0] == want['crash'][0] and res['crash'][1] == want['crash'][1]
    if res['kind'] != 'violation' or res['oracle'] != want['oracle'] or want['prop'] not in res['props'].split(','):
        return False
    if want.get('race_fn'):
        return race_fn(res.get('text', '')) == want['race_fn']
    return True


def race_fn(text):
    m = re.search(r'in ([^ ]+?)[(<]', text)
    return m.group(1) if m else ''


def minimise(binary, path, want, tmpdir, budget_runs=300, budget_s=60):
    head, ops, tail = parse_replay(path)
    t0 = time.time()
    runs = [0]

    def test(cand_ops):
        if runs[0] >= budget_runs or time.time() - t0 > budget_s:
            return False
        runs[0] += 1
        p = os.path.join(tmpdir, 'cand.replay')
        write_replay(p, head, cand_ops, tail)
        return same_class(replay(binary, p, 30), want)

    # ddmin over top-level operations (marker lines stay)
    def without(idx_set):
        return [o for k, o in enumerate(ops) if k not in idx_set]
    n = 2
    while True:
        removable = [k for k, o in enumerate(ops) if not o.get('marker')]
        if len(removable) < 2:
            break
        size = max(1, len(removable) // n)
        reduced = False
        for i in range(0, len(removable), size):
            drop = set(removable[i:i + size])
            cand = without(drop)
            if any(not o.get('marker') for o in cand) and test(cand):
                ops = cand; n = max(n - 1, 2); reduced = True
                break
        if not reduced:
            if size == 1:
                break
            n = min(len(removable), n * 2)
        if runs[0] >= budget_runs or time.time() - t0 > budget_s:
            break
    # drop nested operations and faults
    changed = True
    while changed and runs[0] < budget_runs:
        changed = False
        for i, o in enumerate(ops):
            if o.get('marker'):
                continue
            if o['kids']:
                for k in range(len(o['kids'])):
                    c = dict(o); c['kids'] = o['kids'][:k] + o['kids'][k + 1:]
                    cand = ops[:i] + [c] + ops[i + 1:]
                    if test(cand):
                        ops = cand; changed = True
                        break
                if changed:
                    break
            f = o['line'].split()
            # fields: op depth at name a0..a9 fault fault_at stall
            if f[3] == 'call' and f[14] != '0':
                f2 = f[:]; f2[14] = '0'; f2[15] = '0'
                c = dict(o); c['line'] = ' '.join(f2)
                cand = ops[:i] + [c] + ops[i + 1:]
                if test(cand):
                    ops = cand; changed = True
                    break
    return head, ops, tail, runs[0]


def load_known():
    out = []
    p = os.path.join(ROOT, 'known_findings.jsonl')
    if os.path.exists(p):
        for line in open(p):
            line = line.strip()
            if line and not line.startswith('#'):
                out.append(json.loads(line))
    return out


def matches_known(k, prop, cls, ops):
    """k: known-finding record; cls: dict(kind, oracle, crash); ops: minimised op tree."""
    if k.get('status') != 'open' or prop not in k.get('properties', [k.get('property')]):
        return False
    sig = k.get('signature', {})
    names = []

    def walk(n):
        names.append(n['line'].split()[3])
        for c in n['kids']:
            walk(c)
    for o in ops:
        walk(o)
    for need in sig.get('ops_include', []):
        if names.count(need['op']) < need.get('min', 1):
            return False
    if 'oracle' in sig and not (cls['kind'] == 'violation' and re.search(sig['oracle'], cls.get('oracle', ''))):
        if 'crash' not in sig:
            return False
    if 'crash' in sig:
        if cls['kind'] == 'crash':
            if not re.search(sig['crash'], cls['crash'][0] + ' ' + cls['crash'][1] + ' ' + cls['crash'][2]):
                return False
        elif 'oracle' not in sig or not re.search(sig['oracle'], cls.get('oracle', '')):
            return False
    return True


CURRENT_PROP = ''


def crash_props(kind, frame, ffile):
    props = ['C14']
    if kind == 'hang' and CURRENT_PROP in ('C01', 'C12'):
        props.append(CURRENT_PROP)   # a call (or, under threads, any operation) that never returns
    if CURRENT_PROP == 'C20':
        props.append('C20')   # everything the coroutine world executes is C20's business
    if kind == 'terminate':
        # a conforming reporter that throws on fatal only was made to throw through a noexcept function (C15)
        props.append('C15')
        if any(w in frame for w in ('watched', 'release_mon', 'req_destruction')):
            props.append('C13')
    if ffile == 'lifetime.hpp':
        props.append('C13')
    if ffile == 'coro.hpp':
        props.append('C20')
    return props


def main_threads(prop, tier, seed, budget):
    """C12: Mode T under ThreadSanitizer (simT) and, in the thorough tier, the same seeds under ASan (simTa)."""
    t_start = time.time()
    build(('simT', 'simTa', 'simTc') if tier == 'thorough' else ('simT',))
    t_built = time.time()
    outdir = os.path.join(ROOT, 'replays', 'tmp', prop)
    shutil.rmtree(outdir, ignore_errors=True)
    os.makedirs(outdir, exist_ok=True)
    binaries = [('simT', os.path.join(BUILD, 'simT'))]
    if tier == 'thorough':
        binaries.append(('simTa', os.path.join(BUILD, 'simTa')))
        binaries.append(('simTc', os.path.join(BUILD, 'simTc')))
    chunk = 100 if tier == 'quick' else 300
    counter = [0]
    deadline = time.time() + budget
    base0 = (seed << 32)

    def worker(w):
        evs = []
        while time.time() < deadline:
            i = counter[0]; counter[0] += 1
            bname, bpath = binaries[i % len(binaries)]
            faults = 0 if (i // len(binaries)) % 4 == 3 else 1
            evs.append(((bname, faults), run_chunk(bpath, 'threads', faults, base0 + (i // len(binaries)) * chunk, chunk, outdir, [], 1 if i < 3 else 0, mode='T', cpu=w % NCPU)))
        return evs

    with ThreadPoolExecutor(NCPU) as ex:
        allevs = [e for part in ex.map(worker, range(NCPU)) for e in part]
    t_sim = time.time()
    runs = 0; fps = set(); nontrivial = 0; samples = []; viol = []; crashes = []; harness = []
    agg = dict(ops=0, overlapping_pairs=0, decisions=0, switches=0, blocked_on_lock=0, stalls=0, lock_acquisitions=0, calls_accepted=0, calls_rejected=0,
               faults_fired=0, lin_ok=0, lin_inconclusive=0, lin_nodes=0, lin_by_hint=0)
    by_tasks = {}
    per_bin = {}
    for (bname, faults), evs in allevs:
        for e in evs:
            if e[0] == 'RT':
                runs += 1; per_bin[bname] = per_bin.get(bname, 0) + 1
                (_, sd, lh, fph, nt, nops, ov, dec, sw, bl, stl, la, acc, rej, ff, lv, ln, bh) = e
                by_tasks[nt] = by_tasks.get(nt, 0) + 1
                agg['ops'] += nops; agg['overlapping_pairs'] += ov; agg['decisions'] += dec; agg['switches'] += sw; agg['blocked_on_lock'] += bl
                agg['stalls'] += stl; agg['lock_acquisitions'] += la; agg['calls_accepted'] += acc; agg['calls_rejected'] += rej; agg['faults_fired'] += ff
                agg['lin_nodes'] += ln; agg['lin_by_hint'] += bh
                if lv == 1: agg['lin_ok'] += 1
                if lv == 2: agg['lin_inconclusive'] += 1
                if ov > 0:
                    nontrivial += 1; fps.add(lh)
            elif e[0] == 'V':
                viol.append(dict(seed=e[1], props=e[2], oracle=e[3], path=e[4], text=e[5], binary=bname, faults=faults))
            elif e[0] == 'C':
                crashes.append(dict(seed=e[1], crash=(e[2], e[3], e[4]), stderr=e[5], binary=bname, faults=faults))
            elif e[0] == 'S':
                if len(samples) < 2:
                    samples.append(dict(seed=e[1], plan=e[2][:2500]))
            elif e[0] == 'H':
                harness.append(e[2])
    if harness:
        log('HARNESS: ' + harness[0][:3000]); sys.exit(2)
    known = load_known()
    out_lines = []; exit_code = 0; reported = 0; known_hits = {}
    final_dir = os.path.join(ROOT, 'replays', prop)
    shutil.rmtree(final_dir, ignore_errors=True)
    seen = set(); cands = []
    for v in viol:
        key = (v['oracle'], race_fn(v['text']) if v['oracle'] == 'data_race' else '')
        if key in seen:
            continue
        seen.add(key); cands.append(v)
    harness_fault = None
    bpaths = dict(binaries + [('simTa', os.path.join(BUILD, 'simTa')), ('simTc', os.path.join(BUILD, 'simTc'))])
    for c in cands[:5]:
        binary = bpaths[c['binary']]
        want = dict(kind='violation', oracle=c['oracle'], prop=prop, race_fn=race_fn(c['text']) if c['oracle'] == 'data_race' else '')
        r1 = replay(binary, c['path']); r2 = replay(binary, c['path'])
        if c['oracle'] in ('deadlock', 'self_deadlock'):
            want['race_fn'] = ''
        if not same_class(r1, want) or not same_class(r2, want) or r1.get('hash') != r2.get('hash'):
            harness_fault = 'Mode T candidate from seed %d (%s) did not reproduce identically: %s / %s' % (c['seed'], c['oracle'], str(r1)[:500], str(r2)[:500])
            continue
        # minimise with the PRNG-driven schedule (an explicit decision list does not survive removing operations)
        tmpdir = tempfile.mkdtemp(prefix='simmin-', dir=os.path.join(ROOT, 'replays', 'tmp'))
        noschd = os.path.join(tmpdir, 'nosched.replay')
        head, ops, tail = parse_replay(c['path'])
        tail_ns = ['sched' if l.startswith('sched') else l for l in tail]
        write_replay(noschd, head, ops, tail_ns)
        os.makedirs(final_dir, exist_ok=True)
        fpath = os.path.join(final_dir, 'min-seedT-%d-%s.replay' % (c['seed'], re.sub(r'[^A-Za-z0-9_]+', '_', c['oracle'] + '_' + want['race_fn'])[:80]))
        if same_class(replay(binary, noschd), want):
            head, ops, tail, nruns = minimise(binary, noschd, want, tmpdir, 120 if tier == 'quick' else 300, 40 if tier == 'quick' else 90)
            write_replay(fpath, head, ops, tail)
            r3 = replay(binary, fpath)
            if not same_class(r3, want):
                shutil.copy(c['path'], fpath); r3 = r1
            else:
                write_replay(fpath, head, ops, tail, extra=['violation ' + r3.get('text', '')[:3000], 'minimised_from_seed %d in %d re-runs' % (c['seed'], nruns)])
        else:
            shutil.copy(c['path'], fpath); r3 = r1
        shutil.rmtree(tmpdir, ignore_errors=True)
        cls = dict(kind='violation', oracle=c['oracle'], crash=('', '', ''))
        _, mops, _ = parse_replay(fpath)
        hit = None
        for k in known:
            if matches_known(k, prop, cls, [o for o in mops if not o.get('marker')]):
                hit = k; break
        if hit:
            known_hits[hit['id']] = hit
        else:
            out_lines.append('VIOLATION property=%s replay=%s' % (prop, fpath))
            log('violation: ' + r3.get('text', '')[:1500])
            exit_code = 1; reported += 1
    for c in crashes[:3]:
        # sanitizer death or terminate inside a Mode T run: the replay is the regenerated plan
        binary = bpaths[c['binary']]
        os.makedirs(final_dir, exist_ok=True)
        fpath = os.path.join(final_dir, 'crash-seedT-%d.replay' % c['seed'])
        pl = subprocess.run([binary, 'planT', '--seed', str(c['seed']), '--faults', str(c['faults'])], stdout=subprocess.PIPE, text=True).stdout
        with open(fpath, 'w') as f:
            f.write('# trompeloeil deterministic-simulation replay file v1\nbinary %s\nprofile threads\nproperty C12\noracle %s\nviolation %s in %s (%s)\n' % (c['binary'], c['crash'][0], c['crash'][0], c['crash'][1], c['crash'][2]) + pl)
        r1 = replay(binary, fpath)
        if c['crash'][0] == 'hang' and r1['kind'] == 'ok':
            log('note: seed %d was silent for %d s in a worker but completes normally when replayed (machine load, not a hang)' % (c['seed'], IDLE_S))
            continue
        if r1['kind'] == 'crash' and r1['crash'][0] == c['crash'][0]:
            out_lines.append('VIOLATION property=%s replay=%s' % (prop, fpath)); exit_code = 1; reported += 1
            log('violation: %s in %s (%s)' % c['crash'])
        else:
            harness_fault = 'Mode T crash from seed %d did not reproduce: %s' % (c['seed'], str(r1)[:600])
    for kid, k in sorted(known_hits.items()):
        out_lines.append('KNOWN-FINDING: property=%s %s' % (prop, k['text']))
    wall = time.time() - t_start
    sim_s = max(t_sim - t_built, 1e-9)
    evidence = {
        'property_id': prop, 'tier': tier, 'seed': seed, 'level': 'exploration', 'wall_s': round(wall, 2), 'violations': reported,
        'coverage': {
            'evaluations': runs,
            'distinct_nontrivial': len(fps),
            'rule': 'seeded Mode T runs: 2..8 real threads, one runnable at a time, every scheduling decision (at lock acquire/release, clause points, operation boundaries) drawn from the run PRNG under one of four policies; '
                    'a run is non-trivial when at least one pair of operations of different tasks overlapped in real time; distinct = distinct hashes of (schedule trace, recorded history)',
            'samples': samples or [{'note': 'no sample captured'}],
            'nontrivial_runs': nontrivial,
            'runs_by_binary': per_bin,
            'runs_by_task_count': {str(k): v for k, v in sorted(by_tasks.items())},
            'simulated_time': {'unit': 'scheduler decisions (there is no clock to simulate)', 'decisions': agg['decisions'], 'context_switches': agg['switches']},
            'runs_per_hour': int(runs / sim_s * 3600), 'seeds_per_hour': int(runs / sim_s * 3600),
            'operations_executed': agg['ops'], 'overlapping_operation_pairs': agg['overlapping_pairs'],
            'fault_kinds_fired': {'preempt(decisions)': agg['decisions'], 'blocked_on_lock': agg['blocked_on_lock'], 'stall_rounds': agg['stalls'], 'clause_throw_or_stall': agg['faults_fired'], 'fatal_unwind': agg['calls_rejected']},
            'lock_acquisitions_intercepted': agg['lock_acquisitions'],
            'calls_accepted': agg['calls_accepted'], 'calls_rejected': agg['calls_rejected'],
            'linearizability': {'histories_ok': agg['lin_ok'], 'inconclusive': agg['lin_inconclusive'], 'decided_in_critical_section_order': agg['lin_by_hint'], 'model_steps': agg['lin_nodes']},
            'race_detector': 'ThreadSanitizer (clang 14) with the scheduler hand-off invisible to it; a report counts only with a frame in %s/include' % REPO,
            'sanitizer_or_crash_candidates': len(crashes),
            'known_findings_reconfirmed': sorted(known_hits.keys()),
            'components': {'real': ['the headers under %s/include/trompeloeil' % REPO, 'the default get_lock() and its std::recursive_mutex (pthread_mutex_lock/unlock intercepted at link time)', 'real std::thread tasks'],
                           'stand_in_user_side': ['mock classes', 'recording reporter', 'clause bodies'], 'simulated': ['the OS scheduler (replaced by sim/sched.cpp)']},
            'binary': 'simT: clang++ -std=c++14 -O1 -fsanitize=thread (scheduler TU uninstrumented)' + ('; simTa: ASan+UBSan build of the same runner; simTc: TSan build with TROMPELOEIL_CUSTOM_RECURSIVE_MUTEX (the custom branch of get_lock())' if tier == 'thorough' else ''),
            'include_hash': include_hash(), 'build_s': round(t_built - t_start, 2),
        },
        'assumptions': ['yield points at synchronisation operations suffice when no data race is reported (DESIGN.md 3.4)',
                        'the reference model and the sub-step decomposition of expectation creation / mock destruction (DESIGN.md 3.6)',
                        'sampling, not proof'],
    }
    os.makedirs(EVID, exist_ok=True)
    with open(os.path.join(EVID, prop + '.json'), 'w') as f:
        json.dump(evidence, f, indent=1)
    for l in out_lines:
        print(l)
    if harness_fault and exit_code == 0:
        log('HARNESS: ' + harness_fault[:3000]); sys.exit(2)
    print('%s %s: %d runs, %d with overlapping operations (%d distinct), %d violations, %d known findings, %.1fs' % (prop, tier, runs, nontrivial, len(fps), reported, len(known_hits), wall))
    sys.exit(exit_code)


def main():
    ap = argparse.ArgumentParser()
    ap.add_argument('--property', required=True)
    ap.add_argument('--tier', default=os.environ.get('VERIF_TIER', 'quick'))
    ap.add_argument('--budget', type=float, default=None)
    args = ap.parse_args()
    prop = args.property
    tier = args.tier if args.tier in ('quick', 'thorough') else 'quick'
    seed = int(os.environ.get('VERIF_SEED', '1'))
    if prop == 'C12':
        main_threads(prop, tier, seed, args.budget if args.budget is not None else BUDGET_S[tier])
        return
    t_start = time.time()
    build(('simC',) if prop == 'C20' else ('simH',))
    t_built = time.time()
    binary = os.path.join(BUILD, 'simC' if prop == 'C20' else 'simH')
    wide_failed = os.path.join(BUILD, 'wide_failed.txt')
    wide_violation = None
    if prop == 'C09' and os.path.exists(wide_failed):
        # the generated family "one mock function per arity 0..15, every passing mode" is legal user code; headers that
        # cannot compile it break C09's "for every arity from 0 to 15" (the other checks run with a stub in its place)
        os.makedirs(os.path.join(ROOT, 'replays', prop), exist_ok=True)
        wide_violation = os.path.join(ROOT, 'replays', prop, 'wide-family-does-not-compile.replay')
    global CURRENT_PROP
    CURRENT_PROP = prop
    budget = args.budget if args.budget is not None else BUDGET_S[tier]
    known = load_known()
    deny = []
    deny_names = {'multi_monitor': '--no-multi-monitor', 'assign_watched': '--no-assign-watched', 'seq_destroy_live': '--no-seq-destroy-live', 'lazy_params': '--no-lazy-params'}
    open_patterns = sorted({k['pattern'] for k in known if k.get('status') == 'open' and k.get('pattern') in deny_names})
    for pat in open_patterns:
        deny.append(deny_names[pat])
    outdir = os.path.join(ROOT, 'replays', 'tmp', prop)
    shutil.rmtree(outdir, ignore_errors=True)
    os.makedirs(outdir, exist_ok=True)

    res = Result()
    bit = PROP_BITS.index(prop) if prop in PROP_BITS else -1
    profs = PROFILES[prop]
    totw = sum(w for _, w in profs)
    chunk = CHUNK[tier]
    # schedule: weighted round robin of (profile, faults) jobs until the time budget is used
    jobs = []
    for name, w in profs:
        jobs += [(name, 1)] * (w * 3) + [(name, 0)] * w   # fault-injecting and fault-free batches kept apart
    base0 = (seed << 32)
    counter = [0]
    deadline = time.time() + budget

    def worker(_):
        evs = []
        while time.time() < deadline:
            i = counter[0]; counter[0] += 1
            name, faults = jobs[i % len(jobs)]
            extra = ['--deep'] if (tier == 'thorough' and prop != 'C20' and i % 2 == 1) else []
            evs.append(((name, faults, bool(extra)), run_chunk(binary, name, faults, base0 + i * chunk, chunk, outdir, deny + extra, 1 if i < 4 else 0)))
        return evs

    with ThreadPoolExecutor(NCPU) as ex:
        allevs = [e for part in ex.map(worker, range(NCPU)) for e in part]

    for (name, faults, deep), evs in allevs:
        for e in evs:
            if e[0] == 'R':
                res.runs += 1; res.ops += e[5]; res.deep_runs = getattr(res, 'deep_runs', 0) + (1 if deep else 0)
                if bit >= 0 and (e[4] >> bit) & 1:
                    res.nontrivial += 1; res.fps.add(e[3])
            elif e[0] == 'V':
                rec = dict(seed=e[1], props=e[2], oracle=e[3], path=e[4], text=e[5], profile=name, faults=faults, deep=deep, start=e[6] if len(e) > 6 else e[1])
                (res.viol if prop in e[2].split(',') else res.foreign).append(rec)
            elif e[0] == 'C':
                rec = dict(seed=e[1], crash=(e[2], e[3], e[4]), stderr=e[5], profile=name, faults=faults, deep=deep)
                if prop in crash_props(e[2], e[3], e[4]):
                    res.crashes.append(rec)
                else:
                    res.foreign.append(dict(seed=e[1], props=','.join(crash_props(e[2], e[3], e[4])), oracle=e[2], text=e[3], profile=name, faults=faults))
            elif e[0] == 'K':
                res.leaks.append(dict(seed=e[1], bytes=e[2], profile=name, faults=faults, deep=deep))
            elif e[0] == 'L':
                res.leaks.append(dict(line=e[1], profile=name, faults=faults))
            elif e[0] == 'S':
                if len(res.samples) < 3:
                    res.samples.append(dict(seed=e[1], profile=name, faults=faults, plan=e[2][:1500]))
            elif e[0] == 'STATES':
                res.states = getattr(res, 'states', 0) + e[1]
            elif e[0] == 'STATS':
                add_stats(res.stats, e[1])
            elif e[0] == 'H':
                res.harness.append(e[2])
    t_sim = time.time()

    if res.harness:
        log('HARNESS: ' + res.harness[0][:3000])
        sys.exit(2)

    # ---------- candidates: gate, minimise, known findings ----------
    exit_code = 0
    out_lines = []
    final_dir = os.path.join(ROOT, 'replays', prop)
    shutil.rmtree(final_dir, ignore_errors=True)   # replays of earlier runs are stale by definition
    reported = 0
    known_hits = {}
    tmpdir = tempfile.mkdtemp(prefix='simmin-', dir=os.path.join(ROOT, 'replays', 'tmp'))
    cands = []
    seen_cls = set()
    for v in res.viol:
        key = ('v', v['oracle'])
        if key in seen_cls:
            continue
        seen_cls.add(key); cands.append(('v', v))
    for c in res.crashes:
        key = ('c', c['crash'][0], c['crash'][1])
        if key in seen_cls:
            continue
        seen_cls.add(key); cands.append(('c', c))
    if prop == 'C14':
        for l in res.leaks:
            if 'seed' in l and ('leak',) not in seen_cls:
                seen_cls.add(('leak',)); cands.append(('l', l))
    harness_fault = None
    for kind, c in cands[:6]:
        if kind == 'l':
            # regenerate the plan and confirm the imbalance twice in fresh processes
            vals = []
            for _ in range(2):
                p = subprocess.run([binary, 'run', '--profile', c['profile'], '--seed-base', str(c['seed'] - 4), '--count', '5', '--faults', str(c['faults']), '--out', outdir] + deny + (['--deep'] if c.get('deep') else []), stdout=subprocess.PIPE, stderr=subprocess.PIPE, text=True)
                vals.append([l for l in p.stdout.splitlines() if l.startswith('K %d ' % c['seed'])])
            if vals[0] and vals[0] == vals[1]:
                path = os.path.join(final_dir, 'leak-seed-%d-%s.replay' % (c['seed'], c['profile']))
                os.makedirs(final_dir, exist_ok=True)
                pl = subprocess.run([binary, 'plan', '--profile', c['profile'], '--seed', str(c['seed']), '--faults', str(c['faults'])] + deny + (['--deep'] if c.get('deep') else []), stdout=subprocess.PIPE, text=True).stdout
                with open(path, 'w') as f:
                    f.write('# trompeloeil deterministic-simulation replay file v1\nbinary simH\nprofile %s\nproperty C14\noracle allocation_balance\nviolation %d bytes still allocated after the run and teardown\n' % (c['profile'], c['bytes']) + pl)
                out_lines.append('VIOLATION property=%s replay=%s' % (prop, path)); exit_code = 1; reported += 1
            continue
        if kind == 'v':
            path = c['path']
            want = dict(kind='violation', oracle=c['oracle'], prop=prop)
        else:
            # crash: regenerate the replay file from the seed
            path = os.path.join(outdir, 'crash-seed-%d-%s.replay' % (c['seed'], c['profile']))
            pl = subprocess.run([binary, 'plan', '--profile', c['profile'], '--seed', str(c['seed']), '--faults', str(c['faults'])] + deny + (['--deep'] if c.get('deep') else []), stdout=subprocess.PIPE, text=True).stdout
            with open(path, 'w') as f:
                f.write('# trompeloeil deterministic-simulation replay file v1\nbinary ' + os.path.basename(binary) + '\nprofile %s\nproperty %s\noracle %s\nviolation %s in %s (%s)\n' % (c['profile'], ','.join(crash_props(*c['crash'])), c['crash'][0], c['crash'][0], c['crash'][1], c['crash'][2]) + pl)
            want = dict(kind='crash', crash=c['crash'], prop=prop)
        # gate 1: same seed again in fresh processes gives the same result twice
        r1 = replay(binary, path); r2 = replay(binary, path)
        if kind == 'c' and c['crash'][0] == 'hang' and r1['kind'] == 'ok' and r2['kind'] == 'ok' and r1.get('hash') == r2.get('hash'):
            log('note: seed %d was silent for %d s in a worker but completes normally when replayed (machine load, not a hang)' % (c['seed'], IDLE_S))
            continue
        if kind == 'v' and r1['kind'] == 'ok' and r2['kind'] == 'ok' and c.get('start', c['seed']) < c['seed'] and os.path.basename(binary) == 'simH':
            # the plan alone is clean in a fresh process: does the violation need the runs before it in the same process
            # (state the library keeps across worlds)? Replay the whole stretch of seeds, twice, in fresh processes.
            os.makedirs(final_dir, exist_ok=True)
            rpath = os.path.join(final_dir, 'history-seed-%d-to-%d-%s-%s.replay' % (c['start'], c['seed'], c['profile'], re.sub(r'[^A-Za-z0-9_]+', '_', c['oracle'])))
            with open(rpath, 'w') as f:
                f.write('# trompeloeil deterministic-simulation replay file v1\n# the violation shows only after the runs before it in the same process: replay runs the whole range\n'
                        'binary simH\nprofile %s\nproperty %s\noracle %s\nviolation %s\nrange %s %d %d %d %s\n'
                        % (c['profile'], c['props'], c['oracle'], c['text'][:3000], c['profile'], c['start'], c['seed'] - c['start'] + 1, c['faults'], ' '.join(deny + (['--deep'] if c.get('deep') else []))))
            h1 = replay(binary, rpath, timeout=600); h2 = replay(binary, rpath, timeout=600)
            if same_class(h1, want) and same_class(h2, want) and h1.get('hash') == h2.get('hash'):
                hit = None
                for k in known:
                    if matches_known(k, prop, dict(kind='violation', oracle=c['oracle'], crash=('', '', '')), []):
                        hit = k; break
                if hit:
                    known_hits[hit['id']] = (hit, rpath)
                else:
                    out_lines.append('VIOLATION property=%s replay=%s' % (prop, rpath)); exit_code = 1; reported += 1
                    log('violation (needs the preceding runs of the same process, seeds %d..%d): %s' % (c['start'], c['seed'], c['text'][:1200]))
                continue
            os.remove(rpath)
        if not same_class(r1, want) or not same_class(r2, want) or r1.get('hash') != r2.get('hash'):
            harness_fault = 'candidate from seed %d (%s) did not reproduce identically in fresh processes: %s / %s' % (c['seed'], want.get('oracle', want.get('crash')), r1, r2)
            continue
        head, ops, tail, nruns = minimise(binary, path, want, tmpdir, budget_runs=300 if tier == 'thorough' else 150, budget_s=60 if tier == 'thorough' else 30)
        os.makedirs(final_dir, exist_ok=True)
        name = 'min-seed-%d-%s-%s.replay' % (c['seed'], c['profile'], re.sub(r'[^A-Za-z0-9_]+', '_', want.get('oracle') or want['crash'][0]))
        fpath = os.path.join(final_dir, name)
        write_replay(fpath, head, ops, tail)
        r3 = replay(binary, fpath)
        if not same_class(r3, want):
            harness_fault = 'minimised replay %s does not reproduce: %s' % (fpath, r3)
            continue
        # refresh the violation text in the file
        text = r3.get('text') or ('%s in %s (%s)' % r3['crash'])
        write_replay(fpath, head, ops, tail, extra=['violation ' + text, 'minimised_from_seed %d in %d re-runs' % (c['seed'], nruns)])
        cls = dict(kind=want['kind'], oracle=want.get('oracle', ''), crash=want.get('crash', ('', '', '')))
        hit = None
        for k in known:
            if matches_known(k, prop, cls, ops):
                hit = k; break
        if hit:
            known_hits[hit['id']] = (hit, fpath)
        else:
            out_lines.append('VIOLATION property=%s replay=%s' % (prop, fpath))
            log('violation: ' + text[:1500])
            exit_code = 1; reported += 1
    shutil.rmtree(tmpdir, ignore_errors=True)

    # ---------- targeted mini-batches for open known findings of this property ----------
    for k in known:
        if k.get('status') != 'open' or prop not in k.get('properties', [k.get('property')]):
            continue
        tgt = k.get('target')
        if not tgt or k['id'] in known_hits:
            continue
        allow_deny = [d for d in deny if d != deny_names.get(k.get('pattern'))]
        found = None
        for n in range(tgt.get('chunks', 4)):
            evs = run_chunk(binary, tgt['profile'], 1, (seed << 32) + (1 << 30) + n * 200, 200, outdir, allow_deny, 0)
            for e in evs:
                c = None
                if e[0] == 'V' and prop in e[2].split(','):
                    c = ('v', dict(seed=e[1], oracle=e[3], path=e[4], profile=tgt['profile'], faults=1))
                elif e[0] == 'C' and prop in crash_props(e[2], e[3], e[4]):
                    c = ('c', dict(seed=e[1], crash=(e[2], e[3], e[4]), profile=tgt['profile'], faults=1))
                if not c:
                    continue
                kind, cc = c
                if kind == 'v':
                    path = cc['path']; want = dict(kind='violation', oracle=cc['oracle'], prop=prop)
                else:
                    path = os.path.join(outdir, 'crash-seed-%d-%s.replay' % (cc['seed'], cc['profile']))
                    pl = subprocess.run([binary, 'plan', '--profile', cc['profile'], '--seed', str(cc['seed']), '--faults', '1'] + allow_deny, stdout=subprocess.PIPE, text=True).stdout
                    with open(path, 'w') as f:
                        f.write('# trompeloeil deterministic-simulation replay file v1\nbinary simH\nprofile %s\n' % cc['profile'] + pl)
                    want = dict(kind='crash', crash=cc['crash'], prop=prop)
                r1 = replay(binary, path)
                if not same_class(r1, want):
                    continue
                tmpdir = tempfile.mkdtemp(prefix='simmin-', dir=os.path.join(ROOT, 'replays', 'tmp'))
                head, ops, tail, nruns = minimise(binary, path, want, tmpdir, 120, 25)
                shutil.rmtree(tmpdir, ignore_errors=True)
                cls = dict(kind=want['kind'], oracle=want.get('oracle', ''), crash=want.get('crash', ('', '', '')))
                if matches_known(k, prop, cls, ops):
                    found = True
                else:
                    os.makedirs(final_dir, exist_ok=True)
                    fpath = os.path.join(final_dir, 'min-seed-%d-%s-targeted.replay' % (cc['seed'], cc['profile']))
                    write_replay(fpath, head, ops, tail)
                    if same_class(replay(binary, fpath), want):
                        out_lines.append('VIOLATION property=%s replay=%s' % (prop, fpath)); exit_code = 1; reported += 1
                break
            if found:
                break
        if found:
            known_hits[k['id']] = (k, None)

    for kid, (k, fpath) in sorted(known_hits.items()):
        out_lines.append('KNOWN-FINDING: property=%s %s' % (prop, k['text']))
    if wide_violation:
        os.makedirs(os.path.dirname(wide_violation), exist_ok=True)
        with open(wide_violation, 'w') as f:
            f.write('# trompeloeil deterministic-simulation replay file v1\nbinary (compile time)\nproperty C09\noracle wide_family_compiles\n'
                    'violation the generated mock family (arity 0..15, every passing mode in every clause kind) does not compile against the current headers\n'
                    '# reproduce: make -C %s B=%s VERIF_REPO=%s %s/H/wide.o ; the compiler said:\n' % (ROOT, BUILD, REPO, BUILD) + ''.join('# ' + l for l in open(wide_failed)))
        out_lines.append('VIOLATION property=%s replay=%s' % (prop, wide_violation))
        log('violation: the wide mock family does not compile: ' + open(wide_failed).read()[:800])
        exit_code = 1; reported += 1

    wall = time.time() - t_start
    sim_s = max(t_sim - t_built, 1e-9)
    st = res.stats
    fault_counts = {k[2:]: v for k, v in st.items() if k.startswith('f_')}
    probes = {k[2:]: v for k, v in st.items() if k.startswith('p_')}
    relax = {k[6:]: v for k, v in st.items() if k.startswith('relax_')}
    evidence = {
        'property_id': prop,
        'tier': tier,
        'seed': seed,
        'level': 'exploration',
        'wall_s': round(wall, 2),
        'violations': reported,
        'coverage': {
            'evaluations': res.runs,
            'distinct_nontrivial': len(res.fps),
            'rule': 'seeded plans (operation streams with attached faults) from the swarm generator; ' + NONTRIVIAL_RULE.get(prop, '') +
                    '; distinct = distinct abstracted operation-kind sequences (including nested re-entrant operations) among the non-trivial runs',
            'samples': res.samples or [{'note': 'no sample captured'}],
            'nontrivial_runs': res.nontrivial,
            'deep_configuration_runs': getattr(res, 'deep_runs', 0),
            'distinct_model_states': {'count': getattr(res, 'states', 0), 'measure': 'distinct hashes of the reference-model state after a top-level operation, counted per worker batch and summed over the batches (an upper bound on the number of globally distinct states)'},
            'operations_executed': sum(st.get('ops', {}).values()) + st.get('nested_ops', 0),
            'operations_by_kind': st.get('ops', {}),
            'simulated_time': {'unit': 'scheduler decisions / operation steps (the library has no clock; none is invented)', 'steps': res.ops},
            'runs_per_hour': int(res.runs / sim_s * 3600),
            'seeds_per_hour': int(res.runs / sim_s * 3600),
            'fault_kinds_fired': fault_counts,
            'reach_probes': probes,
            'coverage_holes': sorted(k for k, v in probes.items() if v == 0) if tier == 'thorough' else [],
            'relaxations_applied': relax,
            'desynced_runs': st.get('desynced', 0),
            'calls_accepted': st.get('calls_accepted', 0),
            'calls_rejected': st.get('calls_rejected', 0),
            'flag_observations': st.get('flag_observations', 0),
            'foreign_oracle_hits': len(res.foreign),
            'foreign_oracle_hit_classes': sorted({f['props'] + ':' + f['oracle'] for f in res.foreign})[:20],
            'sanitizer_or_crash_candidates': len(res.crashes),
            'allocation_imbalance_candidates': len(res.leaks),
            'known_findings_reconfirmed': sorted(known_hits.keys()),
            'patterns_not_generated_in_main_batches': open_patterns,
            'profiles': [p for p, _ in profs],
            'components': {
                'real': ['every header under %s/include/trompeloeil the world instantiates (mock.hpp, sequence.hpp, lifetime.hpp, matcher headers, stream_tracer.hpp)' % REPO,
                         'the default get_lock() with its real std::recursive_mutex'],
                'stand_in_user_side': ['mock classes', 'recording reporter / OK reporter (throws on fatal only)', 'recording tracers and one stream_tracer on a string stream', 'clause bodies (log, fault point)'],
            },
            'binary': ('simC: clang++ -std=c++20 -O0 -fsanitize=address,undefined -DTROMPELOEIL_SANITY_CHECKS (coroutine world: mocked eager / lazy task types with and without parameters, 0-4 CO_YIELD, CO_RETURN / CO_THROW / throwing clause)' if prop == 'C20' else 'simH: clang++ -std=c++14 -O0 -fsanitize=address,undefined -DTROMPELOEIL_SANITY_CHECKS'),
            'include_hash': include_hash(),
            'build_s': round(t_built - t_start, 2),
        },
        'assumptions': ([
            'C09: "every arity 0..15 and every passing mode" is a family of programs: it is covered by instantiation (operation wide: 16 arities with the passing mode rotating over the positions, three const variants, one mock_interface class), not by search; what the simulator searches is the order of create / mutate / move / call operations and the re-entrant operations and faults inside clauses',
        ] if prop == 'C09' else []) + [
            'the reference model (sim/model.hpp, DESIGN.md Appendix A) states the property correctly',
            'caller obligations are respected by the generator (no destruction of an executing expectation, nested tracer lifetimes, no mutation from WITH)',
            'sampling, not proof: a clean batch is evidence only',
        ],
    }
    os.makedirs(EVID, exist_ok=True)
    with open(os.path.join(EVID, prop + '.json'), 'w') as f:
        json.dump(evidence, f, indent=1)
    for l in out_lines:
        print(l)
    if harness_fault and exit_code == 0:
        log('HARNESS: ' + harness_fault[:3000])
        sys.exit(2)
    print('%s %s: %d runs, %d non-trivial (%d distinct), %d violations, %d known findings, %.1fs' % (prop, tier, res.runs, res.nontrivial, len(res.fps), reported, len(known_hits), wall))
    sys.exit(exit_code)


if __name__ == '__main__':
    main()
