#!/usr/bin/env python3
"""Framework self-test (not a check): the same seed must give the same event-log hash in every process layout.

For each binary the same seed range is run (a) in one process, (b) split over 4 processes, (c) split over 16
processes started together (Mode T: pinned to different cores and unpinned). Any per-seed hash difference is a
framework bug (DESIGN.md 5).  Usage: selftest_determinism.py [seeds-per-profile]
"""
import os
import subprocess
import sys
from concurrent.futures import ThreadPoolExecutor

ROOT = os.path.dirname(os.path.dirname(os.path.abspath(__file__)))
B = os.path.join(ROOT, 'build')
OUT = os.path.join(ROOT, 'replays', 'tmp', 'selftest')


def run(cmd):
    p = subprocess.run(cmd, stdout=subprocess.PIPE, stderr=subprocess.DEVNULL, text=True)
    h = {}
    for line in p.stdout.splitlines():
        f = line.split()
        if f and f[0] in ('R', 'RT'):
            h[int(f[1])] = f[2]
    return h


def layouts(mk, n, base=1000):
    """mk(base, count, cpu) -> command"""
    res = []
    res.append(run(mk(base, n, None)))
    for parts in (4, 16):
        step = (n + parts - 1) // parts
        jobs = [(base + i * step, min(step, n - i * step), i) for i in range(parts) if i * step < n]
        with ThreadPoolExecutor(parts) as ex:
            hs = list(ex.map(lambda j: run(mk(j[0], j[1], j[2])), jobs))
        merged = {}
        for h in hs:
            merged.update(h)
        res.append(merged)
    return res


def main():
    n = int(sys.argv[1]) if len(sys.argv) > 1 else 400
    os.makedirs(OUT, exist_ok=True)
    subprocess.run(['make', '-C', ROOT, '-j16'], stdout=subprocess.DEVNULL, check=True)
    bad = 0
    total = 0
    for prof in ['general', 'bounds', 'lifetime', 'seq', 'forbid', 'clauses', 'watched', 'destroy', 'reports', 'okrep', 'trace']:
        for faults in (1, 0):
            a, b, c = layouts(lambda s, k, cpu: [os.path.join(B, 'simH'), 'run', '--profile', prof, '--seed-base', str(s), '--count', str(k), '--faults', str(faults), '--out', OUT], n)
            d = [s for s in a if a[s] != b.get(s) or a[s] != c.get(s)]
            total += len(a)
            if d or len(a) != n:
                bad += 1; print('MISMATCH simH %s faults=%d: %d of %d seeds differ (got %d results)' % (prof, faults, len(d), n, len(a)), d[:5])
    for name in ('simT', 'simTa'):
        def mk(s, k, cpu, name=name):
            cmd = [os.path.join(B, name), 'runT', '--seed-base', str(s), '--count', str(k), '--out', OUT]
            return (['taskset', '-c', str(cpu % (os.cpu_count() or 1))] + cmd) if cpu is not None and cpu % 2 == 0 else cmd
        a, b, c = layouts(mk, n * 3)
        d = [s for s in a if a[s] != b.get(s) or a[s] != c.get(s)]
        total += len(a)
        if d or len(a) != n * 3:
            bad += 1; print('MISMATCH %s: %d of %d seeds differ' % (name, len(d), n * 3), d[:5])
    a, b, c = layouts(lambda s, k, cpu: [os.path.join(B, 'simC'), 'run', '--seed-base', str(s), '--count', str(k), '--out', OUT], n * 3)
    d = [s for s in a if a[s] != b.get(s) or a[s] != c.get(s)]
    total += len(a)
    if d or len(a) != n * 3:
        bad += 1; print('MISMATCH simC: %d of %d seeds differ' % (len(d), n * 3), d[:5])
    print('determinism self-test: %d seeds x 3 process layouts, %d mismatching groups' % (total, bad))
    return 1 if bad else 0


if __name__ == '__main__':
    sys.exit(main())
