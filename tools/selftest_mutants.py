#!/usr/bin/env python3
"""Framework self-test (not a check): sensitivity. Each mutant is a small edit of the headers applied to a scratch
copy of /repo/include (outside /repo and /verif; VERIF_REPO / VERIF_BUILD point the check there; the copy and its
build output are removed afterwards). The owning property's quick check must exit 1 with a VIOLATION line.

Usage: selftest_mutants.py [mutant-id ...]      (default: all)
Unlike the seeded changes in /verif/seeded, these need not pass the repository's own suite: they probe that an
oracle reacts at all to the fault class it is responsible for (DESIGN.md 5).
"""
import os
import shutil
import subprocess
import sys
import tempfile
import time

ROOT = os.path.dirname(os.path.dirname(os.path.abspath(__file__)))
M = 'include/trompeloeil/mock.hpp'
S = 'include/trompeloeil/sequence.hpp'
L = 'include/trompeloeil/lifetime.hpp'
C = 'include/trompeloeil/coro.hpp'

MUTANTS = [
    ('M01', 'C02', M, 'if (!first_match || cost < lowest_cost)', 'if (!first_match || cost <= lowest_cost)'),
    ('M02', 'C03', M, 'return call_count >= min_calls;', 'return call_count > min_calls;'),
    ('M04', 'C04', M, 'return !reported && this->is_linked() && !sequences->is_satisfied();', 'return this->is_linked() && !sequences->is_satisfied();'),
    ('M05', 'C04', M, '''      if (is_unfulfilled())
      {
        report_missed("Pending expectation on destroyed mock object");''', '''      if (false)
      {
        report_missed("Pending expectation on destroyed mock object");'''),
    ('M06', 'C05', S, '''      if (first == m) return;
      first->retire();''', '''      first->retire();
      if (first == m) return;'''),
    ('M07', 'C05', M, '''          sequences->retire();
          this->unlink();
          saturated_list.push_back(this);''', '''          this->unlink();
          saturated_list.push_back(this);'''),
    ('M08', 'C06', S, '''      if (!matcher.is_satisfied())
      {
        return false;''', '''      if (!matcher.is_satisfied() && &matcher != &*matchers.begin())
      {
        return false;'''),
    ('M09', 'C06', S, '''      os << "\\n  missing ";
      m->print_expectation(os);
      m->unlink();''', '''      if (!m->is_optional()) { os << "\\n  missing ";
      m->print_expectation(os); }
      m->unlink();'''),
    ('M10', 'C08', M, 'actions.push_back(effect);', 'actions.push_front(effect);'),
    ('M11', 'C08', M, '        if (!c.check(params)) return false;', '        if (!c.check(params)) break;'),
    ('M12', 'C09', M, '#define TROMPELOEIL_LR_SIDE_EFFECT(...) TROMPELOEIL_SIDE_EFFECT_(&, __VA_ARGS__)', '#define TROMPELOEIL_LR_SIDE_EFFECT(...) TROMPELOEIL_SIDE_EFFECT_(=, __VA_ARGS__)'),
    ('M13', 'C09', M, '#define TROMPELOEIL_WITH(...)    TROMPELOEIL_WITH_(=,#__VA_ARGS__, __VA_ARGS__)', '#define TROMPELOEIL_WITH(...)    TROMPELOEIL_WITH_(&,#__VA_ARGS__, __VA_ARGS__)'),
    ('M14', 'C12', M, '''      auto lock = get_lock();
      return sequences->is_satisfied();''', '''      return sequences->is_satisfied();'''),
    ('M15', 'C12', M, '''      auto lock = get_lock();
      m.matcher->hook_last(obj.trompeloeil_matcher_list(static_cast<Tag*>(nullptr)));''', '''      m.matcher->hook_last(obj.trompeloeil_matcher_list(static_cast<Tag*>(nullptr)));'''),
    ('M16', 'C12', L, '''deathwatched<T>::~deathwatched()
{
  auto lock = get_lock();''', '''deathwatched<T>::~deathwatched()
{'''),
    ('M17', 'C12', M, '''      auto lock = get_lock();
      if (is_unfulfilled())
      {
        report_missed("Unfulfilled expectation");
      }
      this->unlink();''', '''      this->unlink();
      auto lock = get_lock();
      if (is_unfulfilled())
      {
        report_missed("Unfulfilled expectation");
      }'''),
    ('M18', 'C12', M, '''    auto lock = get_lock();

    call_params_type_t<void(P...)> param_value(std::forward<P>(p)...);

    auto i = find(e.active, param_value);''', '''    call_params_type_t<void(P...)> param_value(std::forward<P>(p)...);

    auto i = [&]{ auto lock = get_lock(); return find(e.active, param_value); }();
    auto lock = get_lock();'''),
    ('M19', 'C13', M, '''    null_on_move(
      null_on_move const&)
    noexcept
    {}''', '''    null_on_move(
      null_on_move const& o)
    noexcept
      : p(o.p)
    {}'''),
    ('M20', 'C15', M, '''    send_report<specialized>(severity::fatal, loc, os.str());
  }

  template <typename Sig>
  struct matcher_info''', '''    send_report<specialized>(severity::nonfatal, loc, os.str());
  }

  template <typename Sig>
  struct matcher_info'''),
    ('M21', 'C15', M, '''    os << values;
    send_report<specialized>(severity::nonfatal, loc, os.str());''', '''    os << values;
    send_report<specialized>(severity::fatal, loc, os.str());'''),
    ('M22', 'C16', M, '      send_ok_report<specialized>(name);', '      send_ok_report<specialized>(name); if (sequences->is_saturated()) send_ok_report<specialized>(name);'),
    ('M23', 'C17', M, '''      set_tracer(previous);
    }''', '''      set_tracer(nullptr);
    }'''),
    ('M24', 'C20', C, 'm.matcher->yield_expressions->push_back(expr);', 'm.matcher->yield_expressions->push_front(expr);'),
    ('M25', 'C01', M, '''        if (cost == 0)
        {
          return &i;
        }''', '''        if (cost == 0 || cost == ~0U)
        {
          return &i;
        }'''),
    ('M26', 'C07', M, '''      if (sequences->is_forbidden())
      {
        reported = true;''', '''      if (sequences->is_forbidden() && sequences->get_calls() == 0)
      {
        sequences->increment_call();
        reported = true;'''),
    ('M27', 'C14', M, '''        next->prev = this;
        r.next = this;''', '''        next->prev = this;
        r.next = this;
        if (next == &r) { next = this; prev = this; }'''),
    ('M28', 'C13', L, '''      for (auto pp = &object_monitor; *pp; pp = &(*pp)->next_monitor)
      {
        if (*pp == this) { *pp = next_monitor; break; }
      }''', '''      object_monitor = nullptr;'''),
    ('M29', 'C12', S, '    bool is_completed() const { auto lock = get_lock(); return obj->is_completed(); }', '    bool is_completed() const { return obj->is_completed(); }'),
    ('M30', 'C20', C, '''      call_params_type_t<Sig> params)
    {''', '''      call_params_type_t<Sig>& params)
    {'''),
    ('M31', 'C14', M, '''      delete t;
    }
  };''', '''      (void)t;
    }
  };'''),
    ('M32', 'C12', L, '  atomic<bool>       died{false};', '  bool               died{false};'),
    ('M33', 'C12', M, '''    void decommission()
    {
      auto lock = get_lock();''', '''    void decommission()
    {'''),
    ('M34', 'C12', S, '''    {
      auto lock = get_lock();
      seq->add_last(this);''', '''    {
      seq->add_last(this);'''),
    ('M36', 'C14', S, """      if (first == m) return;
      first->retire();""", """      if (first == m) return;
      if (first->is_optional() && !first->is_satisfied()) continue;   // (never true together: kept to show a hang is reported)
      if (first->is_optional()) { if (matchers.begin() != matchers.end()) continue; }
      first->retire();"""),
    ('M35', 'C12', M, '''      auto lock = get_lock();
      return sequences->is_saturated();''', '''      return sequences->is_saturated();'''),
]


# Negative controls: edits that change how the library is written (number and extent of critical sections, an
# equivalent comparison) but not what it does. The owning check must stay quiet (exit 0): an alarm here is a false alarm
# of the machinery. Each entry: id, property, list of (file, old, new).
EQUIVALENTS = [
    ('E01', 'C12', [(M, """    void decommission()
    {
      auto lock = get_lock();""", """    void decommission()
    {"""), (M, """    ~expectations() {
      active.decommission();
      saturated.decommission();
    }
    call_matcher_list<Sig> active{};
    call_matcher_list<Sig> saturated{};
  };

  template <typename Sig>
  struct expectations<false, Sig>""", """    ~expectations() {
      auto lock = get_lock();
      active.decommission();
      saturated.decommission();
    }
    call_matcher_list<Sig> active{};
    call_matcher_list<Sig> saturated{};
  };

  template <typename Sig>
  struct expectations<false, Sig>"""), (M, """        "https://github.com/rollbear/trompeloeil/blob/master/docs/reference.md#movable_mock");
    }
    ~expectations() {
      active.decommission();""", """        "https://github.com/rollbear/trompeloeil/blob/master/docs/reference.md#movable_mock");
    }
    ~expectations() {
      auto lock = get_lock();
      active.decommission();""")]),
    ('E02', 'C12', [(M, """      auto lock = get_lock();
      return sequences->is_satisfied();""", """      { auto warm_up = get_lock(); }
      auto lock = get_lock();
      return sequences->is_satisfied();""")]),
    ('E03', 'C12', [(S, """    {
      auto lock = get_lock();
      seq->add_last(this);""", """    {
      seq->add_last(this);"""), (M, """      using handler = sequence_handler<sizeof...(T)>;
      auto seq = detail::make_unique<handler>(*sequences,
                                              name,""", """      using handler = sequence_handler<sizeof...(T)>;
      auto lock = get_lock();
      auto seq = detail::make_unique<handler>(*sequences,
                                              name,"""), (L, """    using handler = sequence_handler<sizeof...(T)>;
    auto seq = detail::make_unique<handler>(*sequences,
                                            invocation_name,""", """    using handler = sequence_handler<sizeof...(T)>;
    auto lock = get_lock();
    auto seq = detail::make_unique<handler>(*sequences,
                                            invocation_name,""")]),
    ('E04', 'C03', [(M, 'return call_count == max_calls;', 'return call_count >= max_calls;')]),
    ('E06', 'C02', [(M, 'if (!first_match || cost < lowest_cost)', 'if (first_match == nullptr || !(cost >= lowest_cost))')]),
    ('E07', 'C14', [(M, """      this->unlink();
      sequences->retire(); // while the lock is held""", """      sequences->retire(); // while the lock is held
      this->unlink();
      { std::string scratch(64, 'x'); scratch += name; }""")]),
    ('E08', 'C04', [(M, """      if (is_unfulfilled())
      {
        report_missed("Unfulfilled expectation");
      }
      this->unlink();""", """      const bool short_of_calls = is_unfulfilled();
      if (short_of_calls)
      {
        report_missed("Unfulfilled expectation");
      }
      this->unlink();""")]),
    ('E05', 'C12', [(M, """      auto lock = get_lock();
      if (is_unfulfilled())
      {
        report_missed("Unfulfilled expectation");
      }
      this->unlink();""", """      auto lock = get_lock();
      auto again = get_lock();
      if (is_unfulfilled())
      {
        report_missed("Unfulfilled expectation");
      }
      this->unlink();""")]),
]


def run_equivalents(want, repo):
    results = []
    for eid, prop, edits in EQUIVALENTS:
        if want and eid not in want:
            continue
        scratch = tempfile.mkdtemp(prefix='mutant-%s-' % eid, dir='/tmp')
        try:
            copy_headers(repo, scratch)
            bad = None
            for rel, old, new in edits:
                path = os.path.join(scratch, rel)
                src = open(path).read()
                if src.count(old) != 1:
                    bad = 'SKIP: pattern occurs %d times in %s' % (src.count(old), rel)
                    break
                open(path, 'w').write(src.replace(old, new))
            if bad:
                results.append((eid, prop, bad))
                print(*results[-1], flush=True)
                continue
            env = dict(os.environ, VERIF_REPO=scratch, VERIF_BUILD=os.path.join(scratch, 'build'), VERIF_EVIDENCE_DIR=os.path.join(scratch, 'evidence'))
            t0 = time.time()
            p = subprocess.run([sys.executable, os.path.join(ROOT, 'tools', 'check.py'), '--property', prop, '--tier', 'quick', '--budget', '25'], env=env, stdout=subprocess.PIPE, stderr=subprocess.PIPE, text=True)
            viol = [l for l in p.stdout.splitlines() if l.startswith('VIOLATION')]
            detail = [l for l in p.stderr.splitlines() if l.startswith('violation:') or l.startswith('HARNESS')]
            ok = p.returncode == 0 and not viol
            results.append((eid, prop, ('QUIET' if ok else 'FALSE-ALARM rc=%d' % p.returncode) + ' %.0fs %s' % (time.time() - t0, (detail[0][:200] if detail else ''))))
        finally:
            shutil.rmtree(scratch, ignore_errors=True)
        print(*results[-1], flush=True)
    return results



def copy_headers(repo, scratch):
    """The committed headers (git archive HEAD), so that a seeded change being tried in /repo's working tree at the same
    moment cannot leak into the copy; the working tree itself when /repo is not a git checkout."""
    p = subprocess.run('git -C %s archive HEAD include | tar -x -C %s' % (repo, scratch), shell=True, stdout=subprocess.PIPE, stderr=subprocess.PIPE)
    if p.returncode != 0 or not os.path.isdir(os.path.join(scratch, 'include')):
        shutil.rmtree(os.path.join(scratch, 'include'), ignore_errors=True)
        shutil.copytree(os.path.join(repo, 'include'), os.path.join(scratch, 'include'))


def main():
    want = set(sys.argv[1:])
    repo = os.environ.get('VERIF_REPO_SRC', '/repo')
    results = []
    for mid, prop, rel, old, new in MUTANTS:
        if want and mid not in want:
            continue
        scratch = tempfile.mkdtemp(prefix='mutant-%s-' % mid, dir='/tmp')
        try:
            copy_headers(repo, scratch)
            path = os.path.join(scratch, rel)
            src = open(path).read()
            if src.count(old) != 1:
                results.append((mid, prop, 'SKIP: pattern occurs %d times' % src.count(old)))
                continue
            open(path, 'w').write(src.replace(old, new))
            env = dict(os.environ, VERIF_REPO=scratch, VERIF_BUILD=os.path.join(scratch, 'build'), VERIF_EVIDENCE_DIR=os.path.join(scratch, 'evidence'))
            t0 = time.time()
            p = subprocess.run([sys.executable, os.path.join(ROOT, 'tools', 'check.py'), '--property', prop, '--tier', 'quick', '--budget', '12'], env=env, stdout=subprocess.PIPE, stderr=subprocess.PIPE, text=True)
            viol = [l for l in p.stdout.splitlines() if l.startswith('VIOLATION')]
            detail = [l for l in p.stderr.splitlines() if l.startswith('violation:') or l.startswith('HARNESS')]
            ok = p.returncode == 1 and viol
            results.append((mid, prop, ('DETECTED' if ok else 'MISSED rc=%d' % p.returncode) + ' %.0fs %s' % (time.time() - t0, (detail[0][:160] if detail else ''))))
        finally:
            shutil.rmtree(scratch, ignore_errors=True)
        print(*results[-1], flush=True)
    missed = [r for r in results if not r[2].startswith('DETECTED')]
    print('mutant self-test: %d mutants, %d detected, %d not' % (len(results), len(results) - len(missed), len(missed)))
    eq = run_equivalents(want, repo)
    loud = [r for r in eq if not r[2].startswith('QUIET')]
    print('negative controls: %d behaviour-preserving edits, %d left the check quiet, %d did not' % (len(eq), len(eq) - len(loud), len(loud)))
    return 1 if missed or loud else 0


if __name__ == '__main__':
    sys.exit(main())
