#!/usr/bin/env python3
"""Generate the catalogue of expectation shapes (DESIGN.md 3.2, Appendix B).

Deterministic: fixed PRNG seed, no dependence on hash order or environment.
Output (into the directory given as argv[1]):
  shapes_<k>.cpp   k = 0..NTU-1   one expectation statement per source line
  shape_table.cpp                 descriptors for the model

A shape is one NAMED_*_CALL statement with run-time holes (sim::Inst).
"""
import os
import random
import sys

NTU = 16
SEED = 20261002

# function table: index -> (name, arity, returns)
#   ret: 'int' | 'void' | 'ref' | 'str'
FUNCS = [
    dict(name='f', arity=1, ret='int', argk=['int']),
    dict(name='f', arity=2, ret='int', argk=['int', 'int']),
    dict(name='g', arity=1, ret='void', argk=['int']),
    dict(name='r', arity=1, ret='ref', argk=['intref']),
    dict(name='c', arity=1, ret='int', argk=['int']),
    dict(name='u', arity=1, ret='int', argk=['uptr']),
    dict(name='s', arity=1, ret='str', argk=['str']),
    dict(name='k', arity=1, ret='cref', argk=['cint']),
    dict(name='z', arity=0, ret='void', argk=[]),
    dict(name='v', arity=1, ret='void', argk=['vec']),
    dict(name='p', arity=1, ret='pair', argk=['int']),
    dict(name='f', arity=1, ret='int', argk=['int'], constobj=True),
]

# matcher kinds (must match sim::MK in shape.hpp)
MK = ['ANY', 'VAL', 'EQ', 'NE', 'LT', 'LE', 'GT', 'GE', 'NOTEQ', 'ANYOF', 'TYPEDANY',
      'RINC2', 'RINC11', 'RIS', 'RSTART', 'RENDS', 'RPERM', 'RALL', 'RNONE', 'RANY', 'RNOTIS', 'RENDS3']
# with predicate kinds (sim::WK)
WK = ['LE', 'GE', 'NE', 'EQ', 'LT12', 'NESNAP', 'LTMAC']
# bounds forms (sim::BF)
BF = ['DEFAULT', 'T2', 'T13', 'T02', 'AL1', 'AL2', 'AM2', 'RT1', 'RT2', 'ALLOW', 'FORBID', 'T0', 'T11', 'AL0', 'T3', 'T24', 'RTAL', 'RTAM']
BOUNDS = {
    'DEFAULT': (1, 1, ''),
    'T2': (2, 2, '.TIMES(2)'),
    'T3': (3, 3, '.TIMES(3)'),
    'T11': (1, 1, '.TIMES(1)'),
    'T13': (1, 3, '.TIMES(1, 3)'),
    'T24': (2, 4, '.TIMES(2, 4)'),
    'T02': (0, 2, '.TIMES(0, 2)'),
    'AL0': (0, -1, '.TIMES(AT_LEAST(0))'),
    'AL1': (1, -1, '.TIMES(AT_LEAST(1))'),
    'AL2': (2, -1, '.TIMES(AT_LEAST(2))'),
    'AM2': (0, 2, '.TIMES(AT_MOST(2))'),
    'RT1': (-2, -2, '.RT_TIMES(x.lo)'),
    'RT2': (-2, -2, '.RT_TIMES(x.lo, x.hi)'),
    'RTAL': (-2, -2, '.RT_TIMES(AT_LEAST(x.lo))'),
    'RTAM': (-2, -2, '.RT_TIMES(AT_MOST(x.hi))'),
    'ALLOW': (0, -1, None),
    'FORBID': (0, 0, None),
    'T0': (0, 0, '.TIMES(0)'),
}
# return kinds (sim::RK)
RK = ['NONE', 'VAL', 'LRVAL', 'THROW_STD', 'THROW_INT', 'REF_PARAM', 'REF_CELL', 'STR', 'LRSTR', 'CREF_PARAM', 'CREF_CELL', 'CREF_CAPT', 'STR_PARAM', 'LRSTR_VAR', 'PAIR', 'LRPAIR_VAR', 'LRTHROW_VAR', 'THROW_CSTR']


def matcher_text(kind, argk, vi):
    v = 'x.v[%d]' % vi
    if argk == 'str':
        v = 'std::to_string(x.v[%d])' % vi
    if kind == 'ANY':
        return 'trompeloeil::_'
    if kind == 'TYPEDANY':
        return {'int': 'ANY(int)', 'intref': 'ANY(int&)', 'cint': 'ANY(const int&)', 'str': 'ANY(std::string&)',
                'uptr': 'ANY(std::unique_ptr<sim::Tracked>)', 'vec': 'ANY(const std::vector<sim::Tracked>&)'}[argk]
    if argk == 'vec':
        return {'RINC2': 'trompeloeil::range_includes(%s, %s)' % (v, v),
                'RINC11': 'trompeloeil::range_includes(%s, %s + 1)' % (v, v),
                'RIS': 'trompeloeil::range_is(%s, %s + 1, %s)' % (v, v, v),
                'RSTART': 'trompeloeil::range_starts_with(%s)' % v,
                'RENDS': 'trompeloeil::range_ends_with(%s + 1, %s)' % (v, v),
                'RPERM': 'trompeloeil::range_is_permutation(%s + 1, %s, %s)' % (v, v, v),
                'RALL': 'trompeloeil::range_all_of(trompeloeil::ge(%s))' % v,
                'RNONE': 'trompeloeil::range_none_of(%s)' % v,
                'RANY': 'trompeloeil::range_any_of(%s)' % v,
                'RNOTIS': '!trompeloeil::range_is(%s, %s + 1, %s)' % (v, v, v),
                'RENDS3': 'trompeloeil::range_ends_with(%s, %s + 1, %s)' % (v, v, v)}[kind]
    if kind == 'VAL':
        return v
    if kind in ('EQ', 'NE', 'LT', 'LE', 'GT', 'GE'):
        return 'trompeloeil::%s(%s)' % (kind.lower(), v)
    if kind == 'NOTEQ':
        return '!trompeloeil::eq(%s)' % v
    if kind == 'ANYOF':
        if argk == 'str':
            return 'trompeloeil::any_of(%s, std::to_string(x.v[%d] + 2))' % (v, vi)
        return 'trompeloeil::any_of(%s, x.v[%d] + 2)' % (v, vi)
    raise ValueError(kind)


def with_text(wk, lr, k, vi, arity=1):
    # all predicates go through sim::val so the text is the same for every argument kind; a function without
    # parameters has nothing but the locals to look at (x.v[0] stands in for the argument)
    a = 'sim::val(_1)' if arity else 'x.v[0]'
    pred = {
        'LE': '%s <= x.v[%d]' % (a, vi),
        'GE': '%s >= x.v[%d]' % (a, vi),
        'NE': '%s != x.v[%d]' % (a, vi),
        'EQ': '%s == x.v[%d]' % (a, vi),
        'LT12': 'sim::val(_1) < sim::val(_2)',
        'NESNAP': '%s != x.snap' % a,
        'LTMAC': '%s < SIM_LIMIT' % a,
    }[wk]
    inner = 'sim::w(x.id, %d, %s)' % (k, pred)
    return ('.LR_WITH(%s)' if lr else '.WITH(%s)') % inner, inner


def gen_shape(rng, sid, fn, force=None):
    """Return a dict describing one shape."""
    f = FUNCS[fn]
    force = force or {}
    d = dict(id=sid, fn=fn)
    # bounds
    bf = force.get('bf') or rng.choice(
        ['DEFAULT'] * 5 + ['T2', 'T13', 'T02', 'AL1', 'AL2', 'AM2', 'T11', 'AL0', 'T3', 'T24'] +
        ['RT1'] * 2 + ['RT2'] * 3 + ['RTAL', 'RTAM'] + ['ALLOW'] * 4 + ['FORBID'] * 2 + ['T0'])
    d['bf'] = bf
    forbidding = bf in ('FORBID', 'T0')
    # matchers
    ms = []
    for i, ak in enumerate(f['argk']):
        if ak == 'uptr':
            kind = rng.choice(['ANY', 'ANY', 'TYPEDANY'])
        elif ak == 'str':
            kind = rng.choice(['ANY', 'VAL', 'EQ', 'NE', 'ANYOF', 'TYPEDANY'])
        elif ak == 'vec':
            kind = rng.choice(['ANY', 'TYPEDANY', 'RINC2', 'RINC2', 'RINC11', 'RIS', 'RSTART', 'RENDS', 'RPERM', 'RALL', 'RNONE', 'RANY', 'RNOTIS', 'RNOTIS', 'RENDS3'])
        elif ak in ('intref', 'cint'):
            kind = rng.choice(['ANY', 'VAL', 'EQ', 'NE', 'LT', 'GE', 'TYPEDANY'])
        else:
            kind = rng.choice(['ANY'] * 3 + ['VAL'] * 3 + ['EQ', 'NE', 'LT', 'LE', 'GT', 'GE', 'NOTEQ', 'ANYOF', 'TYPEDANY'])
        if 'mk' in force:
            kind = force['mk'][i]
        if ak == 'str' and kind == 'VAL':
            kind = 'EQ'   # a std::string& parameter cannot bind to a temporary value; eq() compares without binding
        if ak == 'vec' and kind == 'VAL':
            kind = 'RINC2'
        ms.append((kind, i))  # operand index = parameter index
    d['matchers'] = ms
    # with clauses
    nwith = force.get('nwith', rng.choice([0, 0, 0, 1, 1, 2]))
    withs = []
    for k in range(nwith):
        choices = ['LE', 'GE', 'NE', 'EQ', 'NESNAP']
        if f['arity'] == 2:
            choices.append('LT12')
        wk = rng.choice(choices)
        if 'wk' in force:
            wk = force['wk'][k]
        lr = (wk == 'NESNAP' and rng.random() < 0.5) or rng.random() < 0.25
        if 'wlr' in force:
            lr = force['wlr']
        withs.append((wk, lr, 2))  # operand v[2] for WITH
    d['withs'] = withs
    # sequences
    if forbidding:
        nseq = 0
    else:
        nseq = force.get('nseq', rng.choice([0] * 5 + [1] * 4 + [2] * 2 + [3]))
    d['nseq'] = nseq
    # side effects
    if forbidding:
        nse = 0
    else:
        nse = force.get('nse', rng.choice([0, 0, 1, 1, 2, 3]))
    d['ses'] = [rng.random() < 0.35 for _ in range(nse)]  # True = LR_
    # plain clauses that use the captured copy of a class-type local non-const-ly (std::move(local))
    d['se_take'] = [(not lr) and rng.random() < 0.3 for lr in d['ses']]
    d['ret_take'] = rng.random() < 0.3
    # return
    if forbidding:
        rk = 'NONE'
    elif f['ret'] == 'void':
        rk = rng.choice(['NONE', 'NONE', 'NONE', 'THROW_STD', 'THROW_INT', 'LRTHROW_VAR', 'THROW_CSTR'])
    elif f['ret'] == 'int':
        rk = rng.choice(['VAL'] * 5 + ['LRVAL'] * 2 + ['THROW_STD', 'THROW_INT', 'LRTHROW_VAR', 'THROW_CSTR'])
    elif f['ret'] == 'ref':
        rk = rng.choice(['REF_PARAM', 'REF_CELL', 'REF_CELL', 'THROW_STD'])
    elif f['ret'] == 'pair':
        rk = rng.choice(['PAIR', 'PAIR', 'LRPAIR_VAR', 'LRPAIR_VAR', 'THROW_STD'])
    elif f['ret'] == 'cref':
        rk = rng.choice(['CREF_PARAM', 'CREF_PARAM', 'CREF_CELL', 'CREF_CELL', 'CREF_CAPT', 'CREF_CAPT', 'THROW_STD'])
    else:
        rk = rng.choice(['STR', 'STR', 'LRSTR', 'THROW_STD', 'STR_PARAM', 'STR_PARAM', 'LRSTR_VAR', 'LRSTR_VAR'])
    rk = force.get('rk', rk)
    d['rk'] = rk
    d['vform'] = force.get('vform', rng.random() < 0.2)
    if d['vform']:
        # the _V macros stringify the call after macro expansion, so ANY(type) would not appear as written: keep to '_'
        d['matchers'] = [('ANY' if k == 'TYPEDANY' else k, vi) for k, vi in d['matchers']]
    # clause order: list of tokens
    clauses = []
    for k, (wk, lr, vi) in enumerate(withs):
        clauses.append(('W', k))
    for k in range(nse):
        clauses.append(('S', k))
    if rk != 'NONE':
        clauses.append(('R', 0))
    times_txt = BOUNDS[bf][2]
    if times_txt:
        clauses.append(('T', 0))
    if nseq:
        clauses.append(('Q', 0))
    # random order, but keep relative order among W's and among S's as declared (k ascending = declaration order)
    order = clauses[:]
    rng.shuffle(order)
    # re-number W and S in order of appearance
    wi = si = 0
    final = []
    for c in order:
        if c[0] == 'W':
            final.append(('W', wi)); wi += 1
        elif c[0] == 'S':
            final.append(('S', si)); si += 1
        else:
            final.append(c)
    if forbidding and bf == 'T0':
        # TIMES(0) must precede nothing problematic: no actions exist, fine
        pass
    d['order'] = final
    tpos = [i for i, c in enumerate(final) if c[0] == 'T']
    qpos = [i for i, c in enumerate(final) if c[0] == 'Q']
    d['times_after_seq'] = bool(tpos and qpos and tpos[0] > qpos[0])
    return d


def render(d, scoped=False):
    f = FUNCS[d['fn']]
    args = ', '.join(matcher_text(k, f['argk'][i], vi) for i, (k, vi) in enumerate(d['matchers']))
    arity = f['arity']
    func_txt = '%s(%s)' % (f['name'], args)
    macro = {'ALLOW': 'NAMED_ALLOW_CALL', 'FORBID': 'NAMED_FORBID_CALL'}.get(d['bf'], 'NAMED_REQUIRE_CALL')
    if scoped:
        macro = macro[len('NAMED_'):]
    vform = d.get('vform', False)   # the C++11-style macros that take the modifiers as macro arguments
    obj = 'sim::cm(m)' if f.get('constobj') else 'm'
    s = '' if vform else '%s(%s, %s)' % (macro, obj, func_txt)
    with_inners = []
    addr = ('sim::ad(_1)' + (', sim::ad(_2)' if arity == 2 else '')) if arity else 'nullptr'
    for c, k in d['order']:
        if c == 'W':
            wk, lr, vi = d['withs'][k]
            t, inner = with_text(wk, lr, k, vi, arity)
            s += t
            with_inners.append(inner)
        elif c == 'S':
            lr = d['ses'][k]
            if d['se_take'][k]:
                s += '.SIDE_EFFECT(sim::se(x.id, %d, sim::snapm(x.snap, x.id, std::move(x.str)), %s))' % (k, addr)
            else:
                s += ('.LR_SIDE_EFFECT(sim::se(x.id, %d, x.snap, %s))' if lr else '.SIDE_EFFECT(sim::se(x.id, %d, x.snap, %s))') % (k, addr)
        elif c == 'R':
            rk = d['rk']
            snap_plain = 'sim::snapm(x.snap, x.id, std::move(x.str))' if d['ret_take'] else 'x.snap'
            s += {
                'VAL': '.RETURN(sim::ret(x.id, %s, %s))' % (snap_plain, addr),
                'LRVAL': '.LR_RETURN(sim::ret(x.id, x.snap, %s))' % addr,
                'THROW_STD': '.THROW(sim::thr_std(x.id, %s))' % snap_plain,
                'THROW_INT': '.THROW(sim::thr_int(x.id, x.snap))',
                'LRTHROW_VAR': '.LR_THROW(sim::thr_var(x.id, x.snap, x.exc))',
                'THROW_CSTR': '.THROW(sim::thr_cstr(x.id, x.snap))',
                'REF_PARAM': '.LR_RETURN(sim::retref(x.id, x.snap, _1, %s))' % addr,
                'REF_CELL': '.LR_RETURN(sim::retref(x.id, x.snap, *x.cell, %s))' % addr,
                'CREF_PARAM': '.RETURN(sim::retcref(x.id, x.snap, _1, %s))' % addr,
                'CREF_CELL': '.LR_RETURN(sim::retref(x.id, x.snap, *x.cell, %s))' % addr,
                'CREF_CAPT': '.RETURN(sim::retcref(x.id, x.snap, x.v[0], %s))' % addr,
                'STR': '.RETURN(sim::rets(x.id, %s, %s))' % (snap_plain, addr),
                'LRSTR': '.LR_RETURN(sim::rets(x.id, x.snap, %s))' % addr,
                'STR_PARAM': '.RETURN(sim::retsr(x.id, x.snap, _1, %s))' % addr,
                'LRSTR_VAR': '.LR_RETURN(sim::retsr(x.id, x.snap, x.str, %s))' % addr,
                'PAIR': '.RETURN(sim::retp(x.id, %s, %s))' % (snap_plain, addr),
                'LRPAIR_VAR': '.LR_RETURN(sim::retpr(x.id, x.snap, x.pr, %s))' % addr,
            }[rk]
        elif c == 'T':
            s += BOUNDS[d['bf']][2]
        elif c == 'Q':
            s += '.IN_SEQUENCE(%s)' % ', '.join('s%d' % i for i in range(d['nseq']))
    d['with_inners'] = with_inners
    d['text'] = obj + '.' + func_txt
    if vform:
        s = '%s_V(%s, %s%s)' % (macro, obj, func_txt, (', ' + s) if s else '')
    return s


def cstr(s):
    return '"' + s.replace('\\', '\\\\').replace('"', '\\"') + '"'


def main():
    out = sys.argv[1]
    os.makedirs(out, exist_ok=True)
    rng = random.Random(SEED)
    shapes = []
    sid = 0
    # hand-forced shapes first: the plain ones every profile needs, for every function
    for fn in range(len(FUNCS)):
        f = FUNCS[fn]
        any_m = ['ANY'] * f['arity']
        val_m = ['VAL'] * f['arity'] if f['argk'][:1] != ['uptr'] else any_m
        typed_m = ['TYPEDANY'] * f['arity']   # ANY(type) is a macro: the expectation text must show it as written
        base_rk = {'int': 'VAL', 'void': 'NONE', 'ref': 'REF_CELL', 'str': 'STR', 'cref': 'CREF_CAPT', 'pair': 'PAIR'}[f['ret']]
        forced = [
            dict(bf='DEFAULT', mk=any_m, nwith=0, nseq=0, nse=0, rk=base_rk),
            dict(bf='DEFAULT', mk=val_m, nwith=0, nseq=0, nse=1, rk=base_rk),
            dict(bf='ALLOW', mk=any_m, nwith=0, nseq=0, nse=0, rk=base_rk),
            dict(bf='ALLOW', mk=val_m, nwith=0, nseq=1, nse=0, rk=base_rk),
            dict(bf='FORBID', mk=any_m, nwith=0),
            dict(bf='FORBID', mk=val_m, nwith=0),
            dict(bf='T0', mk=val_m, nwith=1),
            dict(bf='ALLOW', mk=typed_m, nwith=0, nseq=0, nse=0, rk=base_rk, vform=False),
            dict(bf='FORBID', mk=typed_m, nwith=0, vform=False),
            dict(bf='DEFAULT', mk=typed_m, nwith=0, nseq=0, nse=1, rk=base_rk, vform=False),
            dict(bf='FORBID', mk=any_m, nwith=1, vform=True),
            dict(bf='ALLOW', mk=val_m, nwith=1, nseq=0, nse=1, rk=base_rk, vform=True),
            dict(bf='DEFAULT', mk=any_m, nwith=0, nseq=1, nse=0, rk=base_rk),
            dict(bf='DEFAULT', mk=val_m, nwith=0, nseq=1, nse=0, rk=base_rk),
            dict(bf='T2', mk=any_m, nwith=0, nseq=1, nse=0, rk=base_rk),
            dict(bf='AL1', mk=any_m, nwith=0, nseq=1, nse=0, rk=base_rk),
            dict(bf='AL0', mk=any_m, nwith=0, nseq=1, nse=0, rk=base_rk),
            dict(bf='T13', mk=val_m, nwith=0, nseq=2, nse=0, rk=base_rk),
            dict(bf='RT2', mk=any_m, nwith=0, nseq=1, nse=0, rk=base_rk),
            dict(bf='RT2', mk=val_m, nwith=1, nseq=0, nse=1, rk=base_rk),
            dict(bf='RT1', mk=any_m, nwith=0, nseq=2, nse=2, rk=base_rk),
            dict(bf='RTAL', mk=any_m, nwith=0, nseq=1, nse=0, rk=base_rk),
            dict(bf='RTAM', mk=val_m, nwith=0, nseq=0, nse=1, rk=base_rk),
            dict(bf='DEFAULT', mk=any_m, nwith=2, nseq=0, nse=3, rk=base_rk),
        ]
        if f['ret'] == 'void':
            # the two-argument spellings of the _V macros (no modifiers at all) take a different macro path
            forced += [dict(bf='ALLOW', mk=any_m, nwith=0, nseq=0, nse=0, rk='NONE', vform=True),
                       dict(bf='ALLOW', mk=val_m, nwith=0, nseq=0, nse=0, rk='NONE', vform=True),
                       dict(bf='FORBID', mk=val_m, nwith=0, vform=True),
                       dict(bf='DEFAULT', mk=any_m, nwith=0, nseq=0, nse=0, rk='NONE', vform=True),
                       dict(bf='DEFAULT', mk=val_m, nwith=0, nseq=0, nse=0, rk='NONE', vform=True)]
        # a WITH clause that mentions a macro (reported as written), alone and after an ordinary clause
        forced += [dict(bf='ALLOW', mk=any_m, nwith=1, wk=['LTMAC'], wlr=False, nseq=0, nse=0, rk=base_rk, vform=False),
                   dict(bf='DEFAULT', mk=any_m, nwith=2, wk=['GE', 'LTMAC'], wlr=True, nseq=0, nse=1, rk=base_rk, vform=False)]
        if f['arity'] == 0:
            # LR_WITH on a function without parameters: only the local can tell one call from the next
            forced += [dict(bf='ALLOW', mk=any_m, nwith=1, wk=['NESNAP'], wlr=True, nseq=0, nse=0, rk='NONE', vform=False),
                       dict(bf='ALLOW', mk=any_m, nwith=1, wk=['NESNAP'], wlr=False, nseq=0, nse=1, rk='NONE', vform=False),
                       dict(bf='T13', mk=any_m, nwith=2, wk=['NESNAP', 'GE'], wlr=True, nseq=0, nse=0, rk='THROW_STD', vform=False),
                       dict(bf='AL1', mk=any_m, nwith=1, wk=['NESNAP'], wlr=True, nseq=1, nse=0, rk='NONE', vform=False)]
        if f['argk'][:1] == ['vec']:
            # every range matcher at least once, as an ALLOW and as a bounded REQUIRE
            for rmk in ['RINC2', 'RINC11', 'RIS', 'RSTART', 'RENDS', 'RENDS3', 'RPERM', 'RALL', 'RNONE', 'RANY', 'RNOTIS']:
                forced += [dict(bf='ALLOW', mk=[rmk], nwith=0, nseq=0, nse=0, rk='NONE', vform=False),
                           dict(bf='T13', mk=[rmk], nwith=0, nseq=0, nse=1, rk='NONE', vform=False)]
        if f['ret'] == 'pair':
            forced += [dict(bf='ALLOW', mk=any_m, nwith=0, nseq=0, nse=0, rk='LRPAIR_VAR', vform=False),
                       dict(bf='T13', mk=val_m, nwith=0, nseq=0, nse=1, rk='LRPAIR_VAR', vform=False)]
        if f['ret'] == 'str':
            forced += [dict(bf='ALLOW', mk=any_m, nwith=0, nseq=0, nse=0, rk='STR_PARAM', vform=False),
                       dict(bf='ALLOW', mk=any_m, nwith=0, nseq=0, nse=0, rk='LRSTR_VAR', vform=False),
                       dict(bf='T13', mk=val_m, nwith=0, nseq=0, nse=1, rk='STR_PARAM', vform=False),
                       dict(bf='AL1', mk=any_m, nwith=1, nseq=0, nse=1, rk='LRSTR_VAR', vform=False)]
        for fo in forced:
            shapes.append(gen_shape(rng, sid, fn, fo)); sid += 1
    counts = [60, 26, 28, 12, 12, 12, 16, 14, 14, 22, 12, 16]
    for fn, n in enumerate(counts):
        for _ in range(n):
            shapes.append(gen_shape(rng, sid, fn)); sid += 1

    # distribute over translation units round-robin
    tus = [[] for _ in range(NTU)]
    for d in shapes:
        tus[d['id'] % NTU].append(d)
    for k, tu in enumerate(tus):
        lines = []
        lines.append('// generated by tools/gen_shapes.py -- do not edit')
        lines.append('#include "world.hpp"')
        lines.append('namespace sim { namespace gen {')
        for d in tu:
            stmt = render(d)
            seqdecl = ''.join(' auto& s%d = *x.s[%d];' % (i, i) for i in range(d['nseq']))
            lineno = len(lines) + 1
            d['line'] = lineno
            d['tu'] = k
            lines.append('template <class M> EP shape_%d(M& m, Inst& x) {%s static_assert(__LINE__ == %d, "line"); sim::ignore(x); return %s; }'
                         % (d['id'], seqdecl, lineno, stmt))
            assert lines[-1].count('\n') == 0
            d['sline'] = 0
            if d['id'] % 3 == 0:
                sstmt = render(d, scoped=True)
                d['sline'] = len(lines) + 1
                lines.append('template <class M> void sshape_%d(M& m, Inst& x, std::function<void()>& k) {%s static_assert(__LINE__ == %d, "line"); sim::ignore(x); %s; k(); }'
                             % (d['id'], seqdecl, d['sline'], sstmt))
        lines.append('static const char* const this_file = __FILE__;')
        for d in tu:
            if d['sline']:
                lines.append('static ShapeReg reg_%d{%d, this_file, &maker<MockT<false>, &shape_%d<MockT<false>>>, &maker<MockT<true>, &shape_%d<MockT<true>>>, &smaker<MockT<false>, &sshape_%d<MockT<false>>>, &smaker<MockT<true>, &sshape_%d<MockT<true>>>};'
                             % (d['id'], d['id'], d['id'], d['id'], d['id'], d['id']))
            else:
                lines.append('static ShapeReg reg_%d{%d, this_file, &maker<MockT<false>, &shape_%d<MockT<false>>>, &maker<MockT<true>, &shape_%d<MockT<true>>>, nullptr, nullptr};'
                             % (d['id'], d['id'], d['id'], d['id']))
        lines.append('}}')
        with open(os.path.join(out, 'shapes_%d.cpp' % k), 'w') as fh:
            fh.write('\n'.join(lines) + '\n')

    # descriptor table
    t = ['// generated by tools/gen_shapes.py -- do not edit', '#include "shape.hpp"', 'namespace sim {',
         'const ShapeDesc shape_table[] = {']
    for d in shapes:
        L, H, _ = BOUNDS[d['bf']]
        ms = ', '.join('{MK_%s, %d}' % (k, vi) for k, vi in d['matchers'])
        if len(d['matchers']) == 1:
            ms += ', {MK_ANY, 0}'
        if len(d['matchers']) == 0:
            ms = '{MK_ANY, 0}, {MK_ANY, 0}'
        ws = ', '.join('{WK_%s, %s, %d, %s}' % (wk, 'true' if lr else 'false', vi, cstr(d['with_inners'][k]))
                       for k, (wk, lr, vi) in enumerate(d['withs']))
        while ws.count('{') < 2:
            ws += (', ' if ws else '') + '{WK_LE, false, 0, ""}'
        ses = ', '.join('true' if b else 'false' for b in d['ses'])
        while ses.count('e') < 3:
            ses += (', ' if ses else '') + 'false'
        t.append('  {%d, %d, BF_%s, %dL, %dL, %d, %s, {%s}, %d, {%s}, %d, {%s}, RK_%s, %du, %du, %d, %s},'
                 % (d['id'], d['fn'], d['bf'], L, H, d['nseq'], 'true' if d['times_after_seq'] else 'false',
                    ms, len(d['withs']), ws, len(d['ses']), ses, d['rk'], d['line'], d['sline'], d['tu'], cstr(d['text'])))
    t.append('};')
    t.append('const int shape_count = %d;' % len(shapes))
    t.append('}')
    with open(os.path.join(out, 'shape_table.cpp'), 'w') as fh:
        fh.write('\n'.join(t) + '\n')
    gen_wide(out)
    print('generated %d shapes in %d translation units' % (len(shapes), NTU))




# ---------------------------------------------------------------------------------------------------------------
# MockWide: one mock function per arity 0..15 whose parameter at position k cycles through the passing modes
# (value, &, const&, &&, pointer, move-only), plus const and interface-implementing variants (C09).
def gen_wide(out):
    MODES = ['val', 'ref', 'cref', 'rref', 'ptr', 'uptr', 'pref']
    TYPES = {'val': 'int', 'ref': 'int&', 'cref': 'const int&', 'rref': 'int&&', 'ptr': 'int*', 'uptr': 'std::unique_ptr<sim::Tracked>', 'pref': 'int*&'}

    def modes_for(n, shift=0):
        return [MODES[(k + n + shift) % len(MODES)] for k in range(1, n + 1)]

    L = ['// generated by tools/gen_shapes.py -- do not edit', '#include "world.hpp"', '#include "wide.hpp"', 'namespace sim {']
    L.append('struct IWide { virtual ~IWide() = default; virtual int iw3(int, int&, const int&) = 0; virtual int iw5(int*, int, int&, const int&, int&&) const = 0; };')
    L.append('struct MockWide {')
    for n in range(16):
        L.append('  MAKE_MOCK%d(w%d, int(%s));' % (n, n, ', '.join(TYPES[m] for m in modes_for(n))))
    for n in (2, 7, 12):
        L.append('  MAKE_CONST_MOCK%d(cw%d, int(%s));' % (n, n, ', '.join(TYPES[m] for m in modes_for(n, 3))))
    L.append('  MAKE_MOCK15(rw15, int&(%s));' % ', '.join(['int&'] * 15))
    L.append('  MAKE_MOCK2(wt, void(Tracked, Tracked&&));')
    L.append('  MAKE_CONST_MOCK12(rp12, const int*(%s));' % ', '.join(['const int&'] * 12))
    L.append('};')
    L.append('struct MockIWide : trompeloeil::mock_interface<IWide> {')
    L.append('  IMPLEMENT_MOCK3(iw3);')
    L.append('  IMPLEMENT_CONST_MOCK5(iw5);')
    L.append('};')

    cases = []

    def emit_case(cid, mock_t, fname, modes, const_call=False):
        n = len(modes)
        body = []
        body.append('static void wide_case_%d(WideRun& R, int base) {' % cid)
        body.append('  %s m; R.n = %d; R.name = "%s"; WideRun* rp = &R;' % (mock_t, n, fname))
        decl = []; callargs = []
        for k, md in enumerate(modes, 1):
            v = 'base + %d' % (k * 7)
            if md == 'val':
                decl.append('  int a%d = %s; R.mode[%d] = WM_VAL; R.want_val[%d] = a%d; R.want_addr[%d] = nullptr;' % (k, v, k, k, k, k)); callargs.append('a%d' % k)
            elif md in ('ref', 'cref'):
                decl.append('  int a%d = %s; R.mode[%d] = %s; R.want_val[%d] = a%d; R.want_addr[%d] = &a%d;' % (k, v, k, 'WM_REF' if md == 'ref' else 'WM_CREF', k, k, k, k)); callargs.append('a%d' % k)
            elif md == 'rref':
                decl.append('  int a%d = %s; R.mode[%d] = WM_RREF; R.want_val[%d] = a%d; R.want_addr[%d] = &a%d;' % (k, v, k, k, k, k, k)); callargs.append('std::move(a%d)' % k)
            elif md == 'pref':
                decl.append('  int a%d = %s; int* p%d = &a%d; R.mode[%d] = WM_PREF; R.want_val[%d] = a%d; R.want_addr[%d] = &p%d;' % (k, v, k, k, k, k, k, k, k)); callargs.append('p%d' % k)
            elif md == 'ptr':
                decl.append('  int a%d = %s; R.mode[%d] = WM_PTR; R.want_val[%d] = a%d; R.want_addr[%d] = &a%d;' % (k, v, k, k, k, k, k)); callargs.append('&a%d' % k)
            else:
                decl.append('  std::unique_ptr<Tracked> a%d(new Tracked(%s)); R.mode[%d] = WM_UPTR; R.want_val[%d] = a%d->v; R.want_addr[%d] = a%d.get();' % (k, v, k, k, k, k, k)); callargs.append('std::move(a%d)' % k)
        body += decl
        wps = ', '.join(('sim::wpr(_%d)' if modes[k - 1] == 'ref' else 'sim::wpp(_%d)' if modes[k - 1] == 'pref' else 'sim::wp(_%d)') % k for k in range(1, n + 1))
        wild = ', '.join(['trompeloeil::_'] * n)
        stmt = 'auto e = NAMED_REQUIRE_CALL(m, %s(%s))' % (fname, wild)
        stmt += '.WITH(sim::wide_log(rp, 0%s))' % (', ' + wps if n else '')
        stmt += '.SIDE_EFFECT(sim::wide_log(rp, 1%s))' % (', ' + wps if n else '')
        for k, md in enumerate(modes, 1):
            if md == 'ref':
                stmt += '.SIDE_EFFECT(_%d = 1000 + %d)' % (k, k)
            elif md == 'ptr':
                stmt += '.SIDE_EFFECT(*_%d = 1000 + %d)' % (k, k)
        stmt += '.RETURN(sim::wide_ret(rp, 2%s));' % (', ' + wps if n else '')
        body.append('  long c0 = Tracked::copies;')
        body.append('  ' + stmt)
        if const_call:
            body.append('  const %s& cm = m; R.returned = cm.%s(%s);' % (mock_t, fname, ', '.join(callargs)))
        else:
            body.append('  R.returned = m.%s(%s);' % (fname, ', '.join(callargs)))
        for k, md in enumerate(modes, 1):
            if md in ('ref', 'ptr'):
                body.append('  R.after[%d] = a%d;' % (k, k))
        body.append('  R.copies = Tracked::copies - c0;')
        body.append('  R.satisfied = e->is_satisfied();')
        body.append('}')
        cases.append((cid, n))
        return body

    cid = 0
    for n in range(16):
        L += emit_case(cid, 'MockWide', 'w%d' % n, modes_for(n)); cid += 1
    for n in (2, 7, 12):
        L += emit_case(cid, 'MockWide', 'cw%d' % n, modes_for(n, 3), const_call=True); cid += 1
    L += emit_case(cid, 'MockIWide', 'iw3', ['val', 'ref', 'cref']); cid += 1
    L += emit_case(cid, 'MockIWide', 'iw5', ['ptr', 'val', 'ref', 'cref', 'rref'], const_call=True); cid += 1
    # reference / pointer returns by identity: RETURN(_k) must hand the caller that very object, for every position
    def emit_ident_case(cid, fname, n, k, ptr):
        body = ['static void wide_case_%d(WideRun& R, int base) {' % cid,
                '  MockWide m; R.n = %d; R.name = "%s"; R.ident = %d;' % (n, fname, k)]
        body.append('  int a[%d]; for (int i = 0; i < %d; ++i) a[i] = base + i;' % (n, n))
        wild = ', '.join(['trompeloeil::_'] * n)
        body.append('  auto e = NAMED_REQUIRE_CALL(m, %s(%s)).RETURN(%s_%d);' % (fname, wild, '&' if ptr else '', k))
        args = ', '.join('a[%d]' % i for i in range(n))
        if ptr:
            body.append('  const MockWide& cm = m; const int* r = cm.%s(%s); R.ret_addr = r;' % (fname, args))
        else:
            body.append('  int& r = m.%s(%s); R.ret_addr = &r;' % (fname, args))
        body.append('  R.want_ret = &a[%d]; R.satisfied = e->is_satisfied();' % (k - 1))
        body.append('}')
        cases.append((cid, n))
        return body
    for k in range(1, 16):
        L += emit_ident_case(cid, 'rw15', 15, k, False); cid += 1
    for k in range(1, 13):
        L += emit_ident_case(cid, 'rp12', 12, k, True); cid += 1
    # THROW(std::move(_k)): a by-value and an rvalue-reference argument are moved into the exception, not copied
    for k in (1, 2):
        L += ['static void wide_case_%d(WideRun& R, int base) {' % cid,
              '  MockWide m; R.n = 2; R.name = "wt"; R.ident = -1;',
              '  auto e = NAMED_REQUIRE_CALL(m, wt(trompeloeil::_, trompeloeil::_)).THROW(std::move(_%d));' % k,
              '  long c0 = Tracked::copies; bool intact = false;',
              '  try { m.wt(Tracked(base), Tracked(base + 1)); } catch (Tracked& t) { intact = t.v == base + %d; }' % (k - 1),
              '  R.copies = Tracked::copies - c0; R.satisfied = intact && e->is_satisfied();',
              '}']
        cases.append((cid, 2)); cid += 1
    L.append('const int wide_case_count = %d;' % cid)
    L.append('void wide_run(int c, WideRun& R, int base) {')
    L.append('  switch (c) {')
    for c, n in cases:
        L.append('    case %d: wide_case_%d(R, base); break;' % (c, c))
    L.append('    default: break;')
    L.append('  }')
    L.append('}')
    L.append('}')
    with open(os.path.join(out, 'wide.cpp'), 'w') as fh:
        fh.write('\n'.join(L) + '\n')



if __name__ == '__main__':
    main()
