#!/usr/bin/env python3
"""Framework self-test (not a check): the detection matrix of DESIGN.md 13, re-measured.

Every confirmed seeded change under /verif/seeded/<id>/patch.diff is applied to a scratch copy of /repo/include
(outside /repo and /verif; VERIF_REPO / VERIF_BUILD point the check there; the copy and its build output are removed
afterwards) and the quick check of the property it was written against must exit 1 with a VIOLATION line.

Usage: selftest_seeds.py [--budget S] [seed-id ...]      (default: all, 12 s of simulation each)
Prints one line per seeded change: id, DETECTED/MISSED, the oracles of the first violations.
"""
import json
import os
import shutil
import subprocess
import sys
import tempfile
import time

ROOT = os.path.dirname(os.path.dirname(os.path.abspath(__file__)))



def copy_headers(repo, scratch):
    """The committed headers (git archive HEAD), so that a seeded change being tried in /repo's working tree at the same
    moment cannot leak into the copy; the working tree itself when /repo is not a git checkout."""
    p = subprocess.run('git -C %s archive HEAD include | tar -x -C %s' % (repo, scratch), shell=True, stdout=subprocess.PIPE, stderr=subprocess.PIPE)
    if p.returncode != 0 or not os.path.isdir(os.path.join(scratch, 'include')):
        shutil.rmtree(os.path.join(scratch, 'include'), ignore_errors=True)
        shutil.copytree(os.path.join(repo, 'include'), os.path.join(scratch, 'include'))


def main():
    args = sys.argv[1:]
    budget = '12'
    if args and args[0] == '--budget':
        budget = args[1]; args = args[2:]
    want = set(args)
    repo = os.environ.get('VERIF_REPO_SRC', '/repo')
    ids = sorted(d for d in os.listdir(os.path.join(ROOT, 'seeded')) if os.path.isfile(os.path.join(ROOT, 'seeded', d, 'patch.diff')))
    results = []
    for sid in ids:
        if want and sid not in want:
            continue
        prop = sid.split('-')[0]
        scratch = tempfile.mkdtemp(prefix='seedrun-%s-' % sid, dir='/tmp')
        try:
            copy_headers(repo, scratch)
            patch = os.path.join(ROOT, 'seeded', sid, 'patch.diff')
            p = subprocess.run(['patch', '-p1', '-F3', '-s', '-i', patch], cwd=scratch, stdout=subprocess.PIPE, stderr=subprocess.STDOUT, text=True)
            if p.returncode != 0:
                results.append((sid, 'SKIP: patch does not apply: ' + p.stdout.strip()[:120]))
                print(*results[-1], flush=True)
                continue
            env = dict(os.environ, VERIF_REPO=scratch, VERIF_BUILD=os.path.join(scratch, 'build'), VERIF_EVIDENCE_DIR=os.path.join(scratch, 'evidence'))
            t0 = time.time()
            p = subprocess.run([sys.executable, os.path.join(ROOT, 'tools', 'check.py'), '--property', prop, '--tier', 'quick', '--budget', budget],
                               env=env, stdout=subprocess.PIPE, stderr=subprocess.PIPE, text=True)
            viol = [l for l in p.stdout.splitlines() if l.startswith('VIOLATION')]
            oracles = []
            for l in viol:
                name = l.split('replay=')[-1].rsplit('/', 1)[-1]
                name = name[:-len('.replay')] if name.endswith('.replay') else name
                o = name.split('-')[-1]
                if o not in oracles:
                    oracles.append(o)
            ok = p.returncode == 1 and viol
            results.append((sid, ('DETECTED' if ok else 'MISSED rc=%d' % p.returncode) + ' %.0fs' % (time.time() - t0), ' '.join(oracles[:3])))
        finally:
            shutil.rmtree(scratch, ignore_errors=True)
        print(*results[-1], flush=True)
    missed = [r for r in results if not r[1].startswith('DETECTED')]
    print('seeded-change self-test: %d changes, %d detected, %d not' % (len(results), len(results) - len(missed), len(missed)))
    return 1 if missed else 0


if __name__ == '__main__':
    sys.exit(main())
