#!/bin/sh
# every claimed property's quick check on the current tree, one line each (anything but "0 violations" needs a look)
cd "$(dirname "$0")/.." || exit 2
rc=0
for P in C01 C02 C03 C04 C05 C06 C07 C08 C09 C12 C13 C14 C15 C16 C17 C20; do
  ./check $P quick 2>&1 | grep -E "VIOLATION|HARNESS|violation:|$P quick" | cut -c1-400
  [ "${PIPESTATUS:-0}" = 0 ] || rc=1
done
exit $rc
