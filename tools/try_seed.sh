#!/bin/sh
# tools/try_seed.sh <patch.diff> <property> [budget]  -- apply a seeded change to /repo, run the property's quick check, undo.
P="$1"; PROP="$2"; B="${3:-12}"
cd /repo || exit 2
[ -z "$(git status --porcelain --untracked-files=no)" ] || { echo "repo dirty"; exit 2; }
git apply "$P" 2>/dev/null || patch -p1 -F3 -s < "$P" || { echo "APPLY-FAILED $P"; git checkout HEAD -- . ; find . -name '*.rej' -o -name '*.orig' | grep -v _build | xargs rm -f; exit 3; }
find . \( -name '*.rej' -o -name '*.orig' \) -not -path './_build/*' -delete
cd /verif
python3 tools/check.py --property "$PROP" --tier quick --budget "$B" 2>&1 | grep -E "VIOLATION|KNOWN|HARNESS|quick:|violation:" | cut -c1-300
cd /repo && git checkout HEAD -- . && git status --porcelain --untracked-files=no
